//! Prints the C18 digests computed with the alloc-only (serial) build of
//! dusk-plonk. usage: nostd-digest [thorough]
#[path = "../../shared/c18_circuits.rs"]
mod shared;

/// Version binding in a build WITHOUT the `legacy-proving` feature (C04): a
/// V3 proof under every verifier version, on the compiled verifier and on one
/// rebuilt from bytes; proving under V1/V2 must be refused.
fn versions() {
    use dusk_plonk::prelude::*;
    use rand_core::SeedableRng;
    let seed: u64 = std::env::var("VERIF_SEED").ok().and_then(|s| s.parse().ok()).unwrap_or(1);
    let pp = shared::setup(2048);
    for (size, a) in [(64usize, 3u64 + seed % 5), (300, 5 + seed % 7)] {
        let circuit = shared::Mixed { size, a, variant: 0 };
        let label = format!("c04-{size}");
        let (prover, verifier) = match Compiler::compile_with_circuit(&pp, label.as_bytes(), &circuit) {
            Ok(k) => k,
            Err(e) => {
                println!("{size}.error compile {e:?}");
                continue;
            }
        };
        let mut rng = rand_chacha::ChaCha20Rng::seed_from_u64(0xC04 + seed);
        let (proof, pi) = match prover.prove(&mut rng, &circuit) {
            Ok(x) => x,
            Err(e) => {
                println!("{size}.error prove {e:?}");
                continue;
            }
        };
        let rebuilt = Verifier::try_from_bytes(verifier.to_bytes());
        for (name, v) in [("V1", PlonkVersion::V1), ("V2", PlonkVersion::V2), ("V3", PlonkVersion::V3)] {
            println!("{size}.v3proof.{name} {}", if verifier.verify_with_version(&proof, &pi, v).is_ok() { "accept" } else { "reject" });
            if let Ok(rb) = &rebuilt {
                println!("{size}.v3proof.frombytes.{name} {}", if rb.verify_with_version(&proof, &pi, v).is_ok() { "accept" } else { "reject" });
            }
            if v != PlonkVersion::V3 {
                let mut rng = rand_chacha::ChaCha20Rng::seed_from_u64(0xC04 + seed);
                match prover.prove_with_version(&mut rng, &circuit, v) {
                    Ok((p2, pi2)) => {
                        // a legacy proof was produced although the feature is off:
                        // report which verifier versions take it
                        for (n2, v2) in [("V1", PlonkVersion::V1), ("V2", PlonkVersion::V2), ("V3", PlonkVersion::V3)] {
                            println!("{size}.{name}proof.{n2} {}", if verifier.verify_with_version(&p2, &pi2, v2).is_ok() { "accept" } else { "reject" });
                        }
                    }
                    Err(_) => println!("{size}.prove.{name} refused"),
                }
            }
        }
    }
}

fn main() {
    if std::env::args().any(|a| a == "versions") {
        versions();
        return;
    }
    let thorough = std::env::args().any(|a| a == "thorough");
    let set = shared::circuit_set(thorough);
    let cap = set.iter().map(|(s, _)| (*s + 6).next_power_of_two()).max().unwrap();
    let pp = shared::setup(cap);
    for (size, a) in set {
        match shared::digests(&pp, size, a) {
            Ok(d) => {
                for (k, v) in d {
                    println!("{k} {v}");
                }
            }
            Err(e) => {
                println!("{size}.error {e:?}");
            }
        }
    }
    // the history set in an order of its own
    match shared::history_digests(&pp, &[1, 2, 0]) {
        Ok(d) => {
            for (k, v) in d {
                println!("{k} {v}");
            }
        }
        Err(e) => println!("history.error {e:?}"),
    }
}
