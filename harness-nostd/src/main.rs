//! Prints the C18 digests computed with the alloc-only (serial) build of
//! dusk-plonk. usage: nostd-digest [thorough]
#[path = "../../shared/c18_circuits.rs"]
mod shared;

fn main() {
    let thorough = std::env::args().any(|a| a == "thorough");
    let set = shared::circuit_set(thorough);
    let cap = set.iter().map(|(s, _)| (*s + 6).next_power_of_two()).max().unwrap();
    let pp = shared::setup(cap);
    for (size, a) in set {
        match shared::digests(&pp, size, a) {
            Ok(d) => {
                for (k, v) in d {
                    println!("{k} {v}");
                }
            }
            Err(e) => {
                println!("{size}.error {e:?}");
            }
        }
    }
}
