//! vcheck <ID> [--tier quick|thorough] [--replay file] [--only prop] [--cases-scale f]
use std::process::exit;

use vharness::checks;
use vharness::runner::{default_shards, install_quiet_panic_hook, Ctx, Tier};

fn main() {
    let args: Vec<String> = std::env::args().collect();
    if args.len() < 2 {
        eprintln!("usage: vcheck <ID> [--tier quick|thorough] [--replay file] [--only prop]");
        exit(2);
    }
    let id = args[1].clone();
    let mut tier = match std::env::var("VERIF_TIER").ok().as_deref() {
        Some("thorough") => Tier::Thorough,
        _ => Tier::Quick,
    };
    let mut replay: Option<String> = None;
    let mut only: Option<String> = None;
    let mut scale: f64 = std::env::var("VERIF_CASES_SCALE")
        .ok()
        .and_then(|s| s.parse().ok())
        .unwrap_or(1.0);
    if id == "C18" && args.get(2).map(|s| s.as_str()) == Some("--c18-child") {
        let pool: u8 = args.get(3).and_then(|s| s.parse().ok()).unwrap_or(0);
        let thorough = args.iter().any(|a| a == "thorough");
        vharness::checks::c18::child_main(pool, thorough);
        exit(0);
    }
    if id == "C17" && args.get(2).map(|s| s.as_str()) == Some("--gen-corpus") {
        use vharness::mutate;
        let root = std::path::Path::new(vharness::runner::verif_root()).join("corpus");
        for (i, b) in mutate::bases().iter().enumerate() {
            let d = root.join("raw_proof");
            std::fs::create_dir_all(&d).unwrap();
            std::fs::write(d.join(format!("proof-{i}")), &b.proof_bytes).unwrap();
            let d = root.join("raw_compressed");
            std::fs::create_dir_all(&d).unwrap();
            let mut v = vec![i as u8];
            v.extend_from_slice(&b.compressed);
            std::fs::write(d.join(format!("compressed-{i}")), &v).unwrap();
            for (dir, bytes) in [("raw_verifier", &b.verifier_bytes), ("raw_pp", &b.pp_bytes), ("raw_prover", &b.prover_bytes)] {
                // keep the committed corpus small: parameters and provers of the smallest base only
                if dir != "raw_verifier" && i != 0 {
                    continue;
                }
                let d = root.join(dir);
                std::fs::create_dir_all(&d).unwrap();
                let mut v = vec![i as u8];
                v.extend_from_slice(bytes);
                std::fs::write(d.join(format!("{}-{i}", &dir[4..])), &v).unwrap();
            }
        }
        let d = root.join("decoders");
        std::fs::create_dir_all(&d).unwrap();
        // a few script seeds: one edit of each kind per target
        let mut n = 0;
        for target in 0u8..5 {
            for kind in 0u8..8 {
                let seed = [target, kind % 3, 0, kind, 7, 3, 1, 0, 0, 0, 0, 0, 0, 0, 0, 0];
                std::fs::write(d.join(format!("seed-{n:03}")), seed).unwrap();
                n += 1;
            }
        }
        println!("corpus written");
        exit(0);
    }
    let mut i = 2;
    while i < args.len() {
        match args[i].as_str() {
            "--tier" => {
                i += 1;
                tier = match args.get(i).map(|s| s.as_str()) {
                    Some("thorough") => Tier::Thorough,
                    Some("quick") => Tier::Quick,
                    _ => {
                        eprintln!("bad tier");
                        exit(2)
                    }
                };
            }
            "--replay" => {
                i += 1;
                replay = args.get(i).cloned();
            }
            "--only" => {
                i += 1;
                only = args.get(i).cloned();
            }
            "--cases-scale" => {
                i += 1;
                scale = args.get(i).and_then(|s| s.parse().ok()).unwrap_or(1.0);
            }
            other => {
                eprintln!("unknown argument {other}");
                exit(2);
            }
        }
        i += 1;
    }
    let seed: u64 = std::env::var("VERIF_SEED")
        .ok()
        .and_then(|s| s.parse::<i128>().ok())
        .map(|v| v as u64)
        .unwrap_or(20260923);
    install_quiet_panic_hook();

    let all = checks::all();
    let Some(check) = all.iter().find(|c| c.id == id) else {
        eprintln!("unknown property id {id}");
        exit(2);
    };

    if let Some(path) = replay {
        let ctx = Ctx::new(&id, tier, seed, true);
        let bytes = match std::fs::read(&path) {
            Ok(b) => b,
            Err(e) => {
                eprintln!("cannot read {path}: {e}");
                exit(2)
            }
        };
        let v: serde_json::Value = match serde_json::from_slice(&bytes) {
            Ok(v) => v,
            Err(e) => {
                if id == "C17" {
                    // a raw fuzzer input from corpus/
                    match vharness::checks::c17::replay_corpus_file(std::path::Path::new(&path)) {
                        Ok(()) => {
                            println!("replay {path}: property held");
                            exit(0);
                        }
                        Err(f) => {
                            println!("VIOLATION property={id} replay={path}");
                            println!("  signature: {}", f.sig);
                            println!("  message: {}", f.msg);
                            exit(1);
                        }
                    }
                }
                eprintln!("cannot parse {path}: {e}");
                exit(2)
            }
        };
        let pname = v.get("prop").and_then(|x| x.as_str()).unwrap_or("");
        let case = v.get("case").cloned().unwrap_or(serde_json::Value::Null);
        let props = (check.props)();
        let Some((p, _, _)) = props.iter().find(|(p, _, _)| p.name() == pname)
        else {
            eprintln!("replay names unknown prop {pname}");
            exit(2);
        };
        match p.replay(&ctx, case) {
            Ok(()) => {
                println!("replay {path}: property held");
                exit(0);
            }
            Err(f) if f.sig == "replay-parse" && check.sweeps.is_some() => {
                // the record was written by a finite sweep of this check (not a
                // generated case): replaying it means running the sweep again
                let sctx = Ctx::new(&id, tier, seed, true);
                (check.sweeps.unwrap())(&sctx);
                if sctx.violation_count() > 0 {
                    exit(1);
                }
                println!("replay {path}: property held (sweep re-run)");
                exit(0);
            }
            Err(f) => {
                println!("VIOLATION property={id} replay={path}");
                println!("  signature: {}", f.sig);
                println!("  message: {}", f.msg);
                exit(1);
            }
        }
    }

    let ctx = Ctx::new(&id, tier, seed, false);
    (check.describe)(&ctx);
    // regression replays first: committed minimal cases must hold
    run_regressions(&ctx, check);
    let shards = default_shards();
    for (p, q, t) in (check.props)() {
        if let Some(o) = &only {
            if p.name() != o {
                continue;
            }
        }
        let cases = ((tier.pick(q, t) as f64) * scale).ceil() as u32;
        let t0 = std::time::Instant::now();
        p.run(&ctx, cases, shards);
        eprintln!(
            "  [{}] {} cases in {:.1}s",
            p.name(),
            cases,
            t0.elapsed().as_secs_f64()
        );
    }
    if only.is_none() {
        if let Some(s) = check.sweeps {
            s(&ctx);
        }
    }
    exit(ctx.finish());
}

fn run_regressions(ctx: &Ctx, check: &checks::Check) {
    let dir = std::path::Path::new(vharness::runner::verif_root())
        .join("replays/regress")
        .join(check.id);
    let Ok(rd) = std::fs::read_dir(&dir) else {
        return;
    };
    let props = (check.props)();
    let mut files: Vec<_> = rd.filter_map(|e| e.ok()).map(|e| e.path()).collect();
    files.sort();
    for path in files {
        let Ok(bytes) = std::fs::read(&path) else { continue };
        let Ok(v) = serde_json::from_slice::<serde_json::Value>(&bytes) else {
            ctx.infra_problem(format!("regression {} does not parse", path.display()));
            continue;
        };
        let pname = v.get("prop").and_then(|x| x.as_str()).unwrap_or("");
        let case = v.get("case").cloned().unwrap_or(serde_json::Value::Null);
        let Some((p, _, _)) = props.iter().find(|(p, _, _)| p.name() == pname) else {
            ctx.infra_problem(format!("regression {} names unknown prop", path.display()));
            continue;
        };
        ctx.label("regression replays");
        if let Err(f) = p.replay(ctx, case.clone()) {
            ctx.violation(pname, &f, case);
        }
    }
}
