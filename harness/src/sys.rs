//! Access to the system under test: cached public parameters, compilation
//! routes, proving with deterministic or scripted randomness.

use std::collections::HashMap;
use std::sync::{Arc, Mutex, OnceLock};

use dusk_plonk::prelude::{
    Circuit, Compiler, Error, PlonkVersion, Proof, Prover, PublicParameters,
    Verifier,
};
use rand_chacha::ChaCha20Rng;
use rand_core::{CryptoRng, RngCore, SeedableRng};

use crate::fe::F;
use crate::prog::{self, Program, ProgramCircuit};

/// `PublicParameters::setup(capacity)` from a fixed seed, cached.
pub fn pp(capacity: usize) -> Arc<PublicParameters> {
    static CACHE: OnceLock<Mutex<HashMap<usize, Arc<PublicParameters>>>> =
        OnceLock::new();
    let m = CACHE.get_or_init(|| Mutex::new(HashMap::new()));
    if let Some(p) = m.lock().unwrap().get(&capacity) {
        return p.clone();
    }
    let mut rng = ChaCha20Rng::seed_from_u64(0x5eed_0000 + capacity as u64);
    let p = Arc::new(
        PublicParameters::setup(capacity, &mut rng).expect("setup"),
    );
    m.lock().unwrap().insert(capacity, p.clone());
    p
}

/// smallest power-of-two capacity that admits `constraints`
pub fn min_capacity(constraints: usize) -> usize {
    (constraints + 6).next_power_of_two()
}

#[derive(Clone, Copy, Debug, PartialEq, Eq)]
pub enum Route {
    /// `Compiler::compile_with_circuit`
    Instance,
    /// `Compiler::compile::<C>` through `Default`
    Default,
    /// `Compiler::compile_with_compressed(C::compress())`
    Compressed,
}

pub fn compile(
    pp: &PublicParameters,
    label: &[u8],
    program: &Arc<Program>,
    route: Route,
) -> Result<(Prover, Verifier), Error> {
    match route {
        Route::Instance => Compiler::compile_with_circuit(
            pp,
            label,
            &ProgramCircuit::new(program.clone()),
        ),
        Route::Default => {
            prog::set_current(Some(program.clone()));
            let r = Compiler::compile::<ProgramCircuit>(pp, label);
            prog::set_current(None);
            r
        }
        Route::Compressed => {
            prog::set_current(Some(program.clone()));
            let bytes = ProgramCircuit::compress();
            prog::set_current(None);
            Compiler::compile_with_compressed(pp, label, &bytes?)
        }
    }
}

pub fn compress(program: &Arc<Program>) -> Result<Vec<u8>, Error> {
    prog::set_current(Some(program.clone()));
    let bytes = ProgramCircuit::compress();
    prog::set_current(None);
    bytes
}

pub fn rng(seed: u64) -> ChaCha20Rng {
    ChaCha20Rng::seed_from_u64(seed)
}

pub fn prove(
    prover: &Prover,
    program: &Arc<Program>,
    seed: u64,
) -> Result<(Proof, Vec<F>), Error> {
    prover.prove(&mut rng(seed), &ProgramCircuit::new(program.clone()))
}

pub fn prove_version(
    prover: &Prover,
    program: &Arc<Program>,
    seed: u64,
    version: PlonkVersion,
) -> Result<(Proof, Vec<F>), Error> {
    prover.prove_with_version(
        &mut rng(seed),
        &ProgramCircuit::new(program.clone()),
        version,
    )
}

pub fn prove_circuit<C: Circuit>(
    prover: &Prover,
    c: &C,
    seed: u64,
) -> Result<(Proof, Vec<F>), Error> {
    prover.prove(&mut rng(seed), c)
}

/// An RNG that serves a prepared byte stream and records how it is used.
pub struct ScriptedRng {
    pub stream: Vec<u8>,
    pub pos: usize,
    pub calls: Vec<usize>,
    pub exhausted: bool,
}

impl ScriptedRng {
    pub fn new(stream: Vec<u8>) -> Self {
        ScriptedRng {
            stream,
            pos: 0,
            calls: Vec::new(),
            exhausted: false,
        }
    }
}

impl RngCore for ScriptedRng {
    fn next_u32(&mut self) -> u32 {
        let mut b = [0u8; 4];
        self.fill_bytes(&mut b);
        u32::from_le_bytes(b)
    }
    fn next_u64(&mut self) -> u64 {
        let mut b = [0u8; 8];
        self.fill_bytes(&mut b);
        u64::from_le_bytes(b)
    }
    fn fill_bytes(&mut self, dest: &mut [u8]) {
        self.calls.push(dest.len());
        for d in dest.iter_mut() {
            if self.pos < self.stream.len() {
                *d = self.stream[self.pos];
            } else {
                // beyond the script: a NON-zero filler, so that code which
                // re-draws "until non-zero" terminates and the over-draw is
                // reported instead of hanging the harness
                *d = 0x5a;
                self.exhausted = true;
            }
            self.pos += 1;
        }
    }
    fn try_fill_bytes(&mut self, dest: &mut [u8]) -> Result<(), rand_core::Error> {
        self.fill_bytes(dest);
        Ok(())
    }
}

impl CryptoRng for ScriptedRng {}

pub fn err_name(e: &Error) -> String {
    let s = format!("{e:?}");
    s.split(|c: char| !c.is_alphanumeric())
        .next()
        .unwrap_or("")
        .to_string()
}
