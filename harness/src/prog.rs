//! Circuit programs: a serialisable op list covering every public composer
//! component (plus hook-only raw rows), an interpreter that drives a real
//! `Composer` while carrying an independent model value for every witness,
//! and `ProgramCircuit`, the `Circuit` whose `Default` reads a thread-local
//! "current program".

use std::cell::RefCell;
use std::sync::Arc;

use dusk_jubjub::JubJubExtended;
use dusk_plonk::prelude::{
    Circuit, Composer, Constraint, Error, TorsionFreeWitnessPoint, Witness,
    WitnessPoint,
};
use proptest::prelude::*;
use serde::{Deserialize, Serialize};

use crate::curve::{self, Pt};
use crate::dispatch;
use crate::fe::{f_int, f_of, fe_any, fe_random, pick, Fe, F, RJ_MOD, U256};
use crate::spec;

#[derive(Debug, Clone, Serialize, Deserialize, PartialEq)]
pub enum Pi {
    None,
    Zero,
    Val(Fe),
}

impl Pi {
    pub fn val(&self) -> F {
        match self {
            Pi::None | Pi::Zero => F::zero(),
            Pi::Val(v) => v.0,
        }
    }
    pub fn present(&self) -> bool {
        !matches!(self, Pi::None)
    }
    pub fn opt(&self) -> Option<F> {
        match self {
            Pi::None => None,
            Pi::Zero => Some(F::zero()),
            Pi::Val(v) => Some(v.0),
        }
    }
}

/// How a curve point argument is produced.
#[derive(Debug, Clone, Serialize, Deserialize, PartialEq)]
pub struct PtSpec {
    /// 0 subgroup [k]G; 1 [k]G + torsion T_t; 2 raw affine (x, y);
    /// 3 extended representation with Z = z of [k]G (+T_t if t != 0);
    /// 4 Z = 0; 5 inconsistent T1*T2
    pub kind: u8,
    pub k: Fe,
    pub t: u8,
    pub x: Fe,
    pub y: Fe,
    pub z: Fe,
}

impl PtSpec {
    pub fn sub(k: F) -> Self {
        PtSpec {
            kind: 0,
            k: Fe(k),
            t: 0,
            x: Fe(F::zero()),
            y: Fe(F::zero()),
            z: Fe(F::one()),
        }
    }

    fn base_affine(&self) -> Pt {
        let p = curve::gmul(&self.k.0);
        if self.t % 8 != 0 && self.kind != 0 {
            let t = curve::torsion_points()[(self.t % 8) as usize];
            curve::add(&p, &t).expect("complete")
        } else {
            p
        }
    }

    /// affine coordinates this spec denotes (None when it denotes no point)
    pub fn affine(&self) -> Option<Pt> {
        match self.kind {
            0 | 1 | 3 | 5 => {
                if self.kind == 3 && self.z.0 == F::zero() {
                    return None;
                }
                Some(self.base_affine())
            }
            2 => Some((self.x.0, self.y.0)),
            _ => None,
        }
    }

    pub fn extended(&self) -> JubJubExtended {
        match self.kind {
            0 | 1 => curve::to_extended(&self.base_affine()),
            2 => curve::to_extended(&(self.x.0, self.y.0)),
            3 => {
                let (x, y) = self.base_affine();
                let z = self.z.0;
                // (X, Y, Z, T1, T2) with T1*T2 = X*Y/Z
                JubJubExtended::from_raw_unchecked(x * z, y * z, z, x, y * z)
            }
            4 => {
                // Z = 0 with several numerator classes: the point's own
                // coordinates, (0, 0), (0, 1) and arbitrary values; T either
                // copied or arbitrary
                let (bx, by) = self.base_affine();
                let (x, y) = match self.t % 4 {
                    0 => (bx, by),
                    1 => (F::zero(), F::zero()),
                    2 => (F::zero(), F::one()),
                    _ => (self.x.0, self.y.0),
                };
                let (t1, t2) = if self.t % 8 >= 4 { (self.z.0, self.y.0) } else { (x, y) };
                JubJubExtended::from_raw_unchecked(x, y, F::zero(), t1, t2)
            }
            _ => {
                let (x, y) = self.base_affine();
                JubJubExtended::from_raw_unchecked(
                    x,
                    y,
                    F::one(),
                    x + F::one(),
                    y,
                )
            }
        }
    }

    /// denotes an on-curve prime-order-subgroup point in a consistent
    /// representation
    pub fn is_member(&self) -> bool {
        match self.kind {
            0 => true,
            1 => self.t % 8 == 0,
            2 => curve::in_subgroup(&(self.x.0, self.y.0)),
            3 => self.z.0 != F::zero() && self.t % 8 == 0,
            _ => false,
        }
    }
}

pub fn fe_one() -> Fe {
    Fe(F::one())
}

/// consistent extended representation (X, Y, Z, T1, T2) = (xz, yz, z, x, yz)
/// of an affine point; z = 1 is the normalised form
pub fn extended_with_z(p: &Pt, z: &F) -> JubJubExtended {
    if *z == F::one() {
        curve::to_extended(p)
    } else {
        JubJubExtended::from_raw_unchecked(p.0 * z, p.1 * z, *z, p.0, p.1 * z)
    }
}

#[derive(Debug, Clone, Serialize, Deserialize, PartialEq)]
pub enum Op {
    Wit(Fe),
    Const(Fe),
    Public(Fe),
    /// q = [q_m, q_l, q_r, q_o, q_f]; w = [a, b, c, d]
    Gate {
        q: [Fe; 5],
        qc: Fe,
        w: [u16; 4],
        pi: Pi,
    },
    /// q = [q_m, q_l, q_r, q_f, q_o]; w = [a, b, d]
    EvalOut {
        q: [Fe; 5],
        qc: Fe,
        w: [u16; 3],
        pi: Pi,
    },
    GateAdd {
        ql: Fe,
        qr: Fe,
        qf: Fe,
        qc: Fe,
        w: [u16; 3],
        pi: Pi,
    },
    GateMul {
        qm: Fe,
        qf: Fe,
        qc: Fe,
        w: [u16; 3],
        pi: Pi,
    },
    AssertEq(u16),
    AssertEqConst(u16, Pi),
    Boolean(bool),
    Select {
        bit: u16,
        a: u16,
        b: u16,
    },
    SelectOne {
        bit: u16,
        v: u16,
    },
    SelectZero {
        bit: u16,
        v: u16,
    },
    RangeBits {
        bits: u16,
        v: Fe,
    },
    RangePairs {
        pairs: u16,
        v: Fe,
    },
    /// hook: runtime-width `range_check`
    RangeSeam {
        bits: u16,
        v: Fe,
    },
    Logic {
        xor: bool,
        pairs: u8,
        a: u16,
        b: u16,
    },
    Truncate {
        n: u8,
        a: u16,
    },
    Decompose {
        n: u16,
        v: Fe,
    },
    PointWit(PtSpec),
    PointConst(PtSpec),
    PointPublic(PtSpec),
    AssertEqPoint(u16),
    AssertEqPublicPoint(u16),
    TorsionFree(u16),
    AddPoint(u16, u16),
    SubPoint(u16, u16),
    NegPoint(u16),
    MulPoint {
        s: Fe,
        p: u16,
    },
    SelectIdentity {
        bit: bool,
        p: u16,
    },
    SelectPoint {
        bit: u16,
        p: u16,
        q: u16,
    },
    MulGenerator {
        s: Fe,
        gen: Fe,
        /// Z coordinate of the (consistent) extended representation the
        /// generator is handed over in (1 = normalised)
        #[serde(default = "fe_one")]
        z: Fe,
    },
    /// hook: `assert_torsion_free_gates(point, q)` on an untyped point with
    /// an attacker-chosen auxiliary point given by raw coordinates
    TorsionSeam {
        p: u16,
        q: (Fe, Fe),
    },
    /// hook: `append_fixed_base_signed_digits(s, [gen]G, digits)`
    FixedSeam {
        s: Fe,
        gen: Fe,
        digits: Vec<i8>,
        #[serde(default = "fe_one")]
        z: Fe,
    },
    /// hook-only: arithmetic row with arbitrary q_arith
    RawArith {
        q_arith: Fe,
        q: [Fe; 5],
        qc: Fe,
        w: [u16; 4],
        pi: Pi,
    },
    /// hook-only: a row with every selector explicit on four fresh witnesses
    /// holding `vals`; with `next`, followed by an unselected anchor row on
    /// four fresh witnesses holding those values
    Raw {
        sel: Vec<Fe>,
        vals: [Fe; 4],
        next: Option<[Fe; 4]>,
        pi: Pi,
    },
    Pad(u16),
    /// like `Pad`, but every appended gate carries its own selector tuple
    /// (q_l = a distinct constant on the ZERO witness), so nothing repeats
    PadDistinct(u16),
}

impl Op {
    pub fn name(&self) -> &'static str {
        match self {
            Op::Wit(_) => "append_witness",
            Op::Const(_) => "append_constant",
            Op::Public(_) => "append_public",
            Op::Gate { .. } => "append_gate",
            Op::EvalOut { .. } => "append_evaluated_output",
            Op::GateAdd { .. } => "gate_add",
            Op::GateMul { .. } => "gate_mul",
            Op::AssertEq(_) => "assert_equal",
            Op::AssertEqConst(..) => "assert_equal_constant",
            Op::Boolean(_) => "component_boolean",
            Op::Select { .. } => "component_select",
            Op::SelectOne { .. } => "component_select_one",
            Op::SelectZero { .. } => "component_select_zero",
            Op::RangeBits { .. } => "component_range_bits",
            Op::RangePairs { .. } => "component_range",
            Op::RangeSeam { .. } => "range_check(seam)",
            Op::Logic { xor: true, .. } => "append_logic_xor",
            Op::Logic { xor: false, .. } => "append_logic_and",
            Op::Truncate { .. } => "component_truncate",
            Op::Decompose { .. } => "component_decomposition",
            Op::PointWit(_) => "append_point",
            Op::PointConst(_) => "append_constant_point",
            Op::PointPublic(_) => "append_public_point",
            Op::AssertEqPoint(_) => "assert_equal_point",
            Op::AssertEqPublicPoint(_) => "assert_equal_public_point",
            Op::TorsionFree(_) => "assert_torsion_free_point",
            Op::AddPoint(..) => "component_add_point",
            Op::SubPoint(..) => "component_sub_point",
            Op::NegPoint(_) => "component_neg_point",
            Op::MulPoint { .. } => "component_mul_point",
            Op::SelectIdentity { .. } => "component_select_identity",
            Op::SelectPoint { .. } => "component_select_point",
            Op::MulGenerator { .. } => "component_mul_generator",
            Op::RawArith { .. } => "raw_arith_row",
            Op::TorsionSeam { .. } => "assert_torsion_free_gates(seam)",
            Op::FixedSeam { .. } => "fixed_base_signed_digits(seam)",
            Op::Raw { .. } => "raw_row",
            Op::Pad(_) => "pad",
            Op::PadDistinct(_) => "pad(distinct selector tuples)",
        }
    }

    /// number of gates this op appends (None: depends on value/unknown)
    pub fn is_heavy(&self) -> bool {
        matches!(
            self,
            Op::MulPoint { .. } | Op::MulGenerator { .. } | Op::Decompose { .. }
        )
    }
}

#[derive(Debug, Clone, Copy, PartialEq, Eq)]
pub struct Mode {
    /// derive constants so that every constraint is satisfied, and reduce
    /// component inputs into the component's satisfiable domain
    pub solve: bool,
}

/// Witness-value overrides applied after the ops ran (a malicious prover on
/// an unchanged layout): (witness index, value).
pub type Overrides = Vec<(usize, F)>;

#[derive(Debug, Clone)]
pub struct Program {
    pub ops: Vec<Op>,
    pub mode: Mode,
    /// replacement values for the i-th `Op::Wit` (C07: same shape, other
    /// inputs)
    pub inputs: Option<Vec<F>>,
    /// replacement specs for the i-th point-valued witness/public argument
    pub inputs_pts: Option<Vec<PtSpec>>,
    pub overrides: Overrides,
}

impl Program {
    pub fn solved(ops: Vec<Op>) -> Self {
        Program {
            ops,
            mode: Mode { solve: true },
            inputs: None,
            inputs_pts: None,
            overrides: Vec::new(),
        }
    }
}

/// What the interpreter produced, with the independent model values.
#[derive(Debug, Clone, Default)]
pub struct Trace {
    pub wits: Vec<Witness>,
    pub model: Vec<F>,
    pub origin: Vec<usize>,
    pub pts: Vec<WitnessPoint>,
    pub pts_model: Vec<Pt>,
    pub pts_member: Vec<bool>,
    pub pts_origin: Vec<usize>,
    /// indexes into pts that carry the torsion-free type
    pub tfs: Vec<usize>,
    pub tf_handles: Vec<TorsionFreeWitnessPoint>,
    /// model public inputs in row order
    pub public: Vec<F>,
    /// ops skipped because their precondition could not be met
    pub skipped: Vec<usize>,
    /// Option-shape mismatches and similar API-level disagreements
    pub api_mismatch: Vec<String>,
    /// per op: (witness count, gate count) before and after it ran
    pub op_range: Vec<((usize, usize), (usize, usize))>,
    /// per op: index of the first handle it pushed and the count after
    pub op_handles: Vec<(usize, usize)>,
}

impl Trace {
    fn push(&mut self, w: Witness, v: F, op: usize) -> usize {
        self.wits.push(w);
        self.model.push(v);
        self.origin.push(op);
        self.wits.len() - 1
    }
    fn push_pt(
        &mut self,
        p: WitnessPoint,
        m: Pt,
        member: bool,
        op: usize,
    ) -> usize {
        self.pts.push(p);
        self.pts_model.push(m);
        self.pts_member.push(member);
        self.pts_origin.push(op);
        self.pts.len() - 1
    }
    fn push_tf(&mut self, t: TorsionFreeWitnessPoint, m: Pt, op: usize) {
        let i = self.push_pt(t.into(), m, true, op);
        self.tfs.push(i);
        self.tf_handles.push(t);
    }

    /// compare the composer's actual witness values with the model
    pub fn value_mismatches(&self, c: &Composer) -> Vec<(usize, String)> {
        let mut out = Vec::new();
        for i in 0..self.wits.len() {
            if c[self.wits[i]] != self.model[i] {
                out.push((
                    self.origin[i],
                    format!(
                        "witness #{} (op {}): composer {} model {}",
                        self.wits[i].index(),
                        self.origin[i],
                        crate::fe::fe_short(&c[self.wits[i]]),
                        crate::fe::fe_short(&self.model[i])
                    ),
                ));
            }
        }
        for i in 0..self.pts.len() {
            let x = c[*self.pts[i].x()];
            let y = c[*self.pts[i].y()];
            if (x, y) != self.pts_model[i] {
                out.push((
                    self.pts_origin[i],
                    format!(
                        "point {} (op {}): composer differs from model",
                        i, self.pts_origin[i]
                    ),
                ));
            }
        }
        out
    }
}

fn reduce_rj(v: &F) -> F {
    let mut u = f_int(v);
    while !u.lt(RJ_MOD) {
        u = u.sub(RJ_MOD).0;
    }
    f_of(u)
}

fn constraint_from(q_m: F, q_l: F, q_r: F, q_o: F, q_f: F, q_c: F) -> Constraint {
    Constraint::new()
        .mult(q_m)
        .left(q_l)
        .right(q_r)
        .output(q_o)
        .fourth(q_f)
        .constant(q_c)
}

/// Run the ops on a composer. Returns the component's error if one refuses
/// its input.
pub fn run_ops(
    prog: &Program,
    c: &mut Composer,
) -> Result<Trace, Error> {
    let solve = prog.mode.solve;
    let mut t = Trace::default();
    t.push(Composer::ZERO, F::zero(), usize::MAX);
    t.push(Composer::ONE, F::one(), usize::MAX);
    t.push_tf(Composer::IDENTITY, curve::identity(), usize::MAX);
    let mut wit_no = 0usize;
    let mut pt_no = 0usize;
    let mut next_pt = |default: &PtSpec| -> PtSpec {
        let r = match &prog.inputs_pts {
            Some(p) if !p.is_empty() => p[pt_no % p.len()].clone(),
            _ => default.clone(),
        };
        pt_no += 1;
        r
    };

    for (oi, op) in prog.ops.iter().enumerate() {
        let nw = t.wits.len();
        let wi = |i: &u16| pick(*i, nw);
        let before = (c.verif_witness_count(), c.constraints());
        let handles_before = t.wits.len();
        // `continue` inside the match would skip the bookkeeping below, so
        // the match is wrapped in a labelled block
        'op: {
        match op {
            Op::Wit(v) => {
                let v = match &prog.inputs {
                    Some(inp) if !inp.is_empty() => inp[wit_no % inp.len()],
                    _ => v.0,
                };
                wit_no += 1;
                let w = c.append_witness(v);
                t.push(w, v, oi);
            }
            Op::Const(v) => {
                let w = c.append_constant(v.0);
                t.push(w, v.0, oi);
            }
            Op::Public(v) => {
                let w = c.append_public(v.0);
                t.push(w, v.0, oi);
                t.public.push(v.0);
            }
            Op::Gate { q, qc, w, pi } => {
                let [a, b, cc, d] = [wi(&w[0]), wi(&w[1]), wi(&w[2]), wi(&w[3])];
                let inner = q[0].0 * t.model[a] * t.model[b]
                    + q[1].0 * t.model[a]
                    + q[2].0 * t.model[b]
                    + q[3].0 * t.model[cc]
                    + q[4].0 * t.model[d];
                let qc = if solve { -inner - pi.val() } else { qc.0 };
                let mut k =
                    constraint_from(q[0].0, q[1].0, q[2].0, q[3].0, q[4].0, qc)
                        .a(t.wits[a])
                        .b(t.wits[b])
                        .c(t.wits[cc])
                        .d(t.wits[d]);
                if let Some(p) = pi.opt() {
                    k = k.public(p);
                    t.public.push(p);
                }
                c.append_gate(k);
            }
            Op::EvalOut { q, qc, w, pi } => {
                let [a, b, d] = [wi(&w[0]), wi(&w[1]), wi(&w[2])];
                let qo = q[4].0;
                let part = q[0].0 * t.model[a] * t.model[b]
                    + q[1].0 * t.model[a]
                    + q[2].0 * t.model[b]
                    + q[3].0 * t.model[d]
                    + pi.val();
                let mut qc = qc.0;
                if qo == F::zero() && solve {
                    // no output can be solved: the relation must hold as is
                    qc = -part;
                }
                let x = part + qc;
                let mut k = constraint_from(q[0].0, q[1].0, q[2].0, qo, q[3].0, qc)
                    .a(t.wits[a])
                    .b(t.wits[b])
                    .d(t.wits[d]);
                if let Some(p) = pi.opt() {
                    k = k.public(p);
                    t.public.push(p);
                }
                let out = c.append_evaluated_output(k);
                match (out, qo.invert()) {
                    (Some(wo), Some(inv)) => {
                        t.push(wo, -x * inv, oi);
                    }
                    (None, None) => {}
                    (Some(_), None) => t.api_mismatch.push(format!(
                        "op {oi}: append_evaluated_output returned Some for q_o = 0"
                    )),
                    (None, Some(_)) => t.api_mismatch.push(format!(
                        "op {oi}: append_evaluated_output returned None for invertible q_o"
                    )),
                }
            }
            Op::GateAdd { ql, qr, qf, qc, w, pi } => {
                let [a, b, d] = [wi(&w[0]), wi(&w[1]), wi(&w[2])];
                let v = ql.0 * t.model[a]
                    + qr.0 * t.model[b]
                    + qf.0 * t.model[d]
                    + qc.0
                    + pi.val();
                let mut k = Constraint::new()
                    .left(ql.0)
                    .right(qr.0)
                    .fourth(qf.0)
                    .constant(qc.0)
                    .a(t.wits[a])
                    .b(t.wits[b])
                    .d(t.wits[d]);
                if let Some(p) = pi.opt() {
                    k = k.public(p);
                    t.public.push(p);
                }
                let wo = c.gate_add(k);
                t.push(wo, v, oi);
            }
            Op::GateMul { qm, qf, qc, w, pi } => {
                let [a, b, d] = [wi(&w[0]), wi(&w[1]), wi(&w[2])];
                let v = qm.0 * t.model[a] * t.model[b]
                    + qf.0 * t.model[d]
                    + qc.0
                    + pi.val();
                let mut k = Constraint::new()
                    .mult(qm.0)
                    .fourth(qf.0)
                    .constant(qc.0)
                    .a(t.wits[a])
                    .b(t.wits[b])
                    .d(t.wits[d]);
                if let Some(p) = pi.opt() {
                    k = k.public(p);
                    t.public.push(p);
                }
                let wo = c.gate_mul(k);
                t.push(wo, v, oi);
            }
            Op::AssertEq(a) => {
                let a = wi(a);
                if solve {
                    let w2 = c.append_witness(t.model[a]);
                    let i = t.push(w2, t.model[a], oi);
                    c.assert_equal(t.wits[a], t.wits[i]);
                } else {
                    // fixed shape: compare with the previous handle
                    let b = if a == 0 { nw - 1 } else { a - 1 };
                    c.assert_equal(t.wits[a], t.wits[b]);
                }
            }
            Op::AssertEqConst(a, pi) => {
                let a = wi(a);
                let constant = if solve {
                    t.model[a] - pi.val()
                } else {
                    F::from(7u64)
                };
                if let Some(p) = pi.opt() {
                    t.public.push(p);
                }
                c.assert_equal_constant(t.wits[a], constant, pi.opt());
            }
            Op::Boolean(b) => {
                let v = if solve {
                    F::from(*b as u64)
                } else {
                    match &prog.inputs {
                        Some(inp) if !inp.is_empty() => {
                            inp[(wit_no + oi) % inp.len()]
                        }
                        _ => F::from(*b as u64),
                    }
                };
                let w = c.append_witness(v);
                c.component_boolean(w);
                t.push(w, v, oi);
            }
            Op::Select { bit, a, b } => {
                let [bi, a, b] = [wi(bit), wi(a), wi(b)];
                let r = c.component_select(t.wits[bi], t.wits[a], t.wits[b]);
                let v = t.model[bi] * t.model[a]
                    + (F::one() - t.model[bi]) * t.model[b];
                t.push(r, v, oi);
            }
            Op::SelectOne { bit, v } => {
                let [bi, a] = [wi(bit), wi(v)];
                let r = c.component_select_one(t.wits[bi], t.wits[a]);
                let v = F::one() - t.model[bi] + t.model[bi] * t.model[a];
                t.push(r, v, oi);
            }
            Op::SelectZero { bit, v } => {
                let [bi, a] = [wi(bit), wi(v)];
                let r = c.component_select_zero(t.wits[bi], t.wits[a]);
                let v = t.model[bi] * t.model[a];
                t.push(r, v, oi);
            }
            Op::RangeBits { bits, v } => {
                let bits = (*bits as usize).min(256);
                let val = if solve && bits < 255 {
                    spec::low_bits(&v.0, bits as u32)
                } else {
                    input_or(prog, &mut wit_no, v.0)
                };
                let w = c.append_witness(val);
                t.push(w, val, oi);
                dispatch::range_bits(c, bits, w);
            }
            Op::RangePairs { pairs, v } => {
                let pairs = (*pairs as usize).min(160);
                let bits = (2 * pairs).min(256);
                let val = if solve && bits < 255 {
                    spec::low_bits(&v.0, bits as u32)
                } else {
                    input_or(prog, &mut wit_no, v.0)
                };
                let w = c.append_witness(val);
                t.push(w, val, oi);
                dispatch::range_pairs(c, pairs, w);
            }
            Op::RangeSeam { bits, v } => {
                let bits = (*bits as usize).min(256);
                let val = if solve && bits < 255 {
                    spec::low_bits(&v.0, bits as u32)
                } else {
                    input_or(prog, &mut wit_no, v.0)
                };
                let w = c.append_witness(val);
                t.push(w, val, oi);
                c.verif_range_check(w, bits);
            }
            Op::Logic { xor, pairs, a, b } => {
                let pairs = (*pairs as usize).min(127);
                let [a, b] = [wi(a), wi(b)];
                let r = if *xor {
                    dispatch::logic_xor(c, pairs, t.wits[a], t.wits[b])
                } else {
                    dispatch::logic_and(c, pairs, t.wits[a], t.wits[b])
                };
                let bits = 2 * pairs as u32;
                let v = if *xor {
                    spec::bit_xor(&t.model[a], &t.model[b], bits)
                } else {
                    spec::bit_and(&t.model[a], &t.model[b], bits)
                };
                t.push(r, v, oi);
            }
            Op::Truncate { n, a } => {
                let n = (*n as usize).min(254);
                let a = wi(a);
                let r = dispatch::truncate(c, n, t.wits[a]);
                t.push(r, spec::low_bits(&t.model[a], n as u32), oi);
            }
            Op::Decompose { n, v } => {
                let n = (*n as usize).clamp(1, 256);
                let val = if solve && n < 255 {
                    spec::low_bits(&v.0, n as u32)
                } else {
                    input_or(prog, &mut wit_no, v.0)
                };
                let w = c.append_witness(val);
                t.push(w, val, oi);
                let bits = dispatch::decomposition(c, n, w);
                let mb = spec::le_bits(&val, n);
                for (bw, bv) in bits.into_iter().zip(mb) {
                    t.push(bw, bv, oi);
                }
            }
            Op::PointWit(s) => {
                let s = &next_pt(s);
                let p = c.append_point(s.extended())?;
                match s.affine() {
                    Some(m) => {
                        t.push_pt(p, m, s.is_member(), oi);
                    }
                    None => t.api_mismatch.push(format!(
                        "op {oi}: append_point accepted a representation with no affine image"
                    )),
                }
            }
            Op::PointConst(s) => {
                let p = c.append_constant_point(s.extended())?;
                match s.affine() {
                    Some(m) if s.is_member() => t.push_tf(p, m, oi),
                    _ => t.api_mismatch.push(format!(
                        "op {oi}: append_constant_point accepted a non-member"
                    )),
                }
            }
            Op::PointPublic(s) => {
                let s = &next_pt(s);
                let p = c.append_public_point(s.extended())?;
                match s.affine() {
                    Some(m) => {
                        t.push_pt(p, m, s.is_member(), oi);
                        t.public.push(m.0);
                        t.public.push(m.1);
                    }
                    None => t.api_mismatch.push(format!(
                        "op {oi}: append_public_point accepted a representation with no affine image"
                    )),
                }
            }
            Op::AssertEqPoint(p) => {
                let p = pick(*p, t.pts.len());
                if solve {
                    let m = t.pts_model[p];
                    let q = c.append_point(curve::to_affine(&m))?;
                    let member = t.pts_member[p];
                    let qi = t.push_pt(q, m, member, oi);
                    c.assert_equal_point(t.pts[p], t.pts[qi]);
                } else {
                    let q = if p == 0 { t.pts.len() - 1 } else { p - 1 };
                    c.assert_equal_point(t.pts[p], t.pts[q]);
                }
            }
            Op::AssertEqPublicPoint(p) => {
                let p = pick(*p, t.pts.len());
                let (m, ext) = if solve {
                    (t.pts_model[p], curve::to_extended(&t.pts_model[p]))
                } else {
                    let s = next_pt(&PtSpec::sub(F::one()));
                    (s.affine().unwrap_or(curve::identity()), s.extended())
                };
                c.assert_equal_public_point(t.pts[p], ext)?;
                t.public.push(m.0);
                t.public.push(m.1);
            }
            Op::TorsionFree(p) => {
                let p = pick(*p, t.pts.len());
                if solve && !t.pts_member[p] {
                    t.skipped.push(oi);
                    break 'op;
                }
                let tf = c.assert_torsion_free_point(t.pts[p]);
                let m = t.pts_model[p];
                t.push_tf(tf, m, oi);
                // the typed handle aliases the same witnesses: no new model
                // entry is needed beyond the typed view
            }
            Op::AddPoint(p, q) => {
                let [p, q] = [pick(*p, t.tfs.len()), pick(*q, t.tfs.len())];
                let r = c.component_add_point(t.tf_handles[p], t.tf_handles[q]);
                let m = model_add(&t.pts_model[t.tfs[p]], &t.pts_model[t.tfs[q]]);
                t.push_tf(r, m, oi);
            }
            Op::SubPoint(p, q) => {
                let [p, q] = [pick(*p, t.tfs.len()), pick(*q, t.tfs.len())];
                let r = c.component_sub_point(t.tf_handles[p], t.tf_handles[q]);
                let m = model_add(
                    &t.pts_model[t.tfs[p]],
                    &curve::neg(&t.pts_model[t.tfs[q]]),
                );
                t.push_tf(r, m, oi);
            }
            Op::NegPoint(p) => {
                let p = pick(*p, t.tfs.len());
                let r = c.component_neg_point(t.tf_handles[p]);
                let m = curve::neg(&t.pts_model[t.tfs[p]]);
                t.push_tf(r, m, oi);
            }
            Op::MulPoint { s, p } => {
                let p = pick(*p, t.tfs.len());
                let sv = if solve {
                    spec::low_bits(&s.0, 252)
                } else {
                    input_or(prog, &mut wit_no, s.0)
                };
                let w = c.append_witness(sv);
                t.push(w, sv, oi);
                let r = c.component_mul_point(w, t.tf_handles[p]);
                let m = curve::mul(&f_int(&spec::low_bits(&sv, 252)), &t.pts_model[t.tfs[p]])
                    .unwrap_or(curve::identity());
                t.push_tf(r, m, oi);
            }
            Op::SelectIdentity { bit, p } => {
                let p = pick(*p, t.tfs.len());
                let bv = if solve {
                    F::from(*bit as u64)
                } else {
                    input_or(prog, &mut wit_no, F::from(*bit as u64))
                };
                let w = c.append_witness(bv);
                t.push(w, bv, oi);
                let r = c.component_select_identity(w, t.tf_handles[p]);
                let pm = t.pts_model[t.tfs[p]];
                // (bit*x, 1 - bit + bit*y)
                let m = (bv * pm.0, F::one() - bv + bv * pm.1);
                t.push_tf(r, m, oi);
            }
            Op::SelectPoint { bit, p, q } => {
                let bi = wi(bit);
                let [p, q] = [pick(*p, t.pts.len()), pick(*q, t.pts.len())];
                let r = c.component_select_point(t.wits[bi], t.pts[p], t.pts[q]);
                let b = t.model[bi];
                let (pm, qm) = (t.pts_model[p], t.pts_model[q]);
                let m = (
                    b * pm.0 + (F::one() - b) * qm.0,
                    b * pm.1 + (F::one() - b) * qm.1,
                );
                let member = if b == F::one() {
                    t.pts_member[p]
                } else if b == F::zero() {
                    t.pts_member[q]
                } else {
                    false
                };
                t.push_pt(r, m, member, oi);
            }
            Op::MulGenerator { s, gen, z } => {
                let sv = if solve {
                    reduce_rj(&s.0)
                } else {
                    input_or(prog, &mut wit_no, s.0)
                };
                let mut k = reduce_rj(&gen.0);
                if k == F::zero() {
                    k = F::one();
                }
                let g = curve::gmul(&k);
                let w = c.append_witness(sv);
                t.push(w, sv, oi);
                let zz = if z.0 == F::zero() && solve { F::one() } else { z.0 };
                let r = c.component_mul_generator(w, extended_with_z(&g, &zz))?;
                let m = curve::mul_f(&sv, &g).unwrap_or(curve::identity());
                t.push_tf(r, m, oi);
            }
            Op::TorsionSeam { p, q } => {
                let p = pick(*p, t.pts.len());
                let qa = dusk_jubjub::JubJubAffine::from_raw_unchecked(q.0 .0, q.1 .0);
                c.verif_assert_torsion_free_gates(t.pts[p], qa);
            }
            Op::FixedSeam { s, gen, digits, z } => {
                let mut k = reduce_rj(&gen.0);
                if k == F::zero() {
                    k = F::one();
                }
                let g = curve::gmul(&k);
                let sv = input_or(prog, &mut wit_no, s.0);
                let w = c.append_witness(sv);
                t.push(w, sv, oi);
                let mut d = [0i8; 256];
                for (i, x) in digits.iter().take(256).enumerate() {
                    d[i] = *x;
                }
                let r = c.verif_fixed_base_signed_digits(w, extended_with_z(&g, &z.0), &d)?;
                // model: the point the digits encode
                let mut acc = curve::identity();
                for x in d.iter().rev() {
                    acc = curve::double(&acc).unwrap_or(curve::identity());
                    match x {
                        1 => acc = model_add(&acc, &g),
                        -1 => acc = model_add(&acc, &curve::neg(&g)),
                        _ => {}
                    }
                }
                t.push_pt(r, acc, true, oi);
            }
            Op::RawArith { q_arith, q, qc, w, pi } => {
                let [a, b, cc, d] = [wi(&w[0]), wi(&w[1]), wi(&w[2]), wi(&w[3])];
                let inner = q[0].0 * t.model[a] * t.model[b]
                    + q[1].0 * t.model[a]
                    + q[2].0 * t.model[b]
                    + q[3].0 * t.model[cc]
                    + q[4].0 * t.model[d];
                // q_arith * (inner + q_c) + PI = 0
                let (qcv, piv) = if solve {
                    match q_arith.0.invert() {
                        Some(inv) => (-inner - pi.val() * inv, pi.opt()),
                        // q_arith = 0: the public input must vanish
                        None => (qc.0, pi.opt().map(|_| F::zero())),
                    }
                } else {
                    (qc.0, pi.opt())
                };
                let mut sel = [F::zero(); 11];
                sel[spec::Q_M] = q[0].0;
                sel[spec::Q_L] = q[1].0;
                sel[spec::Q_R] = q[2].0;
                sel[spec::Q_O] = q[3].0;
                sel[spec::Q_F] = q[4].0;
                sel[spec::Q_C] = qcv;
                sel[spec::Q_ARITH] = q_arith.0;
                if let Some(p) = piv {
                    t.public.push(p);
                }
                c.verif_append_raw_gate(
                    sel,
                    piv,
                    [t.wits[a], t.wits[b], t.wits[cc], t.wits[d]],
                );
            }
            Op::Raw { sel, vals, next, pi } => {
                let mut s11 = [F::zero(); 11];
                for (i, x) in sel.iter().take(11).enumerate() {
                    s11[i] = x.0;
                }
                let mut ws = [Composer::ZERO; 4];
                for k in 0..4 {
                    ws[k] = c.append_witness(vals[k].0);
                    t.push(ws[k], vals[k].0, oi);
                }
                if let Some(p) = pi.opt() {
                    t.public.push(p);
                }
                c.verif_append_raw_gate(s11, pi.opt(), ws);
                if let Some(nx) = next {
                    let mut ns = [Composer::ZERO; 4];
                    for k in 0..4 {
                        ns[k] = c.append_witness(nx[k].0);
                        t.push(ns[k], nx[k].0, oi);
                    }
                    c.verif_append_raw_gate([F::zero(); 11], None, ns);
                }
            }
            Op::Pad(k) => {
                for _ in 0..*k {
                    c.append_gate(Constraint::new());
                }
            }
            Op::PadDistinct(k) => {
                for _ in 0..*k {
                    let v = F::from(1_000_003u64 + c.constraints() as u64);
                    c.append_gate(Constraint::new().left(v).a(Composer::ZERO));
                }
            }
        }
        }
        t.op_range
            .push((before, (c.verif_witness_count(), c.constraints())));
        t.op_handles.push((handles_before, t.wits.len()));
    }
    for (i, v) in &prog.overrides {
        if *i < c.verif_witness_count() {
            let w = c.verif_witness(*i);
            c.verif_set_witness(w, *v);
        }
    }
    Ok(t)
}

fn input_or(prog: &Program, wit_no: &mut usize, default: F) -> F {
    let v = match &prog.inputs {
        Some(inp) if !inp.is_empty() => inp[*wit_no % inp.len()],
        _ => default,
    };
    *wit_no += 1;
    v
}

fn model_add(p: &Pt, q: &Pt) -> Pt {
    curve::add(p, q).unwrap_or(curve::identity())
}

// ------------------------------------------------------------------
// ProgramCircuit

thread_local! {
    static CURRENT: RefCell<Option<Arc<Program>>> = const { RefCell::new(None) };
    static LAST_TRACE: RefCell<Option<Trace>> = const { RefCell::new(None) };
}

/// Set the program that `ProgramCircuit::default()` denotes on this thread.
pub fn set_current(p: Option<Arc<Program>>) {
    CURRENT.with(|c| *c.borrow_mut() = p);
}

/// The trace of the last `circuit()` run on this thread.
pub fn take_last_trace() -> Option<Trace> {
    LAST_TRACE.with(|t| t.borrow_mut().take())
}

#[derive(Default, Clone)]
pub struct ProgramCircuit(pub Option<Arc<Program>>);

impl ProgramCircuit {
    pub fn new(p: Arc<Program>) -> Self {
        ProgramCircuit(Some(p))
    }
}

impl Circuit for ProgramCircuit {
    fn circuit(&self, composer: &mut Composer) -> Result<(), Error> {
        let p = match &self.0 {
            Some(p) => p.clone(),
            None => CURRENT
                .with(|c| c.borrow().clone())
                .expect("ProgramCircuit::default() without a current program"),
        };
        let t = run_ops(&p, composer)?;
        LAST_TRACE.with(|l| *l.borrow_mut() = Some(t));
        Ok(())
    }
}

/// Build a program on a fresh initialised composer.
pub fn build(prog: &Program) -> Result<(Composer, Trace), Error> {
    let mut c = Composer::initialized();
    let t = run_ops(prog, &mut c)?;
    Ok((c, t))
}

// ------------------------------------------------------------------
// strategies

pub fn pi_strategy() -> BoxedStrategy<Pi> {
    prop_oneof![
        6 => Just(Pi::None),
        1 => Just(Pi::Zero),
        2 => fe_any().prop_map(Pi::Val),
    ]
    .boxed()
}

/// selector coefficients: 0, +-1, small, random
pub fn coeff() -> BoxedStrategy<Fe> {
    prop_oneof![
        4 => Just(Fe(F::zero())),
        4 => Just(Fe(F::one())),
        3 => Just(Fe(-F::one())),
        2 => Just(Fe(F::from(2u64))),
        1 => Just(Fe(-F::from(2u64))),
        3 => fe_random(),
        2 => fe_any(),
    ]
    .boxed()
}

fn r16() -> impl Strategy<Value = u16> {
    any::<u16>()
}

pub fn subgroup_pt() -> BoxedStrategy<PtSpec> {
    let sub = prop_oneof![
        1 => Just(F::zero()),
        2 => Just(F::one()),
        1 => Just(f_of(RJ_MOD.sub(U256::ONE).0)),
        2 => (2u64..50).prop_map(F::from),
        3 => fe_random().prop_map(|f| f.0),
    ]
    .prop_map(PtSpec::sub)
    .boxed();
    // a fifth of the points are handed over in a consistent NON-normalised
    // extended representation (Z != 1): same point, other coordinates
    prop_oneof![
        4 => sub,
        1 => (fe_random(), crate::fe::fe_nonzero()).prop_map(|(k, z)| PtSpec { kind: 3, k, t: 0, x: Fe(F::zero()), y: Fe(F::zero()), z }),
    ]
    .boxed()
}

/// cheap ops (a handful of gates each)
pub fn light_op() -> BoxedStrategy<Op> {
    prop_oneof![
        6 => fe_any().prop_map(Op::Wit),
        2 => fe_any().prop_map(Op::Const),
        3 => fe_any().prop_map(Op::Public),
        6 => (proptest::array::uniform5(coeff()), [r16(), r16(), r16(), r16()], pi_strategy())
            .prop_map(|(q, w, pi)| Op::Gate { q, qc: Fe(F::zero()), w, pi }),
        3 => (proptest::array::uniform5(coeff()), coeff(), [r16(), r16(), r16()], pi_strategy())
            .prop_map(|(q, qc, w, pi)| Op::EvalOut { q, qc, w, pi }),
        3 => (coeff(), coeff(), coeff(), coeff(), [r16(), r16(), r16()], pi_strategy())
            .prop_map(|(ql, qr, qf, qc, w, pi)| Op::GateAdd { ql, qr, qf, qc, w, pi }),
        3 => (coeff(), coeff(), coeff(), [r16(), r16(), r16()], pi_strategy())
            .prop_map(|(qm, qf, qc, w, pi)| Op::GateMul { qm, qf, qc, w, pi }),
        2 => r16().prop_map(Op::AssertEq),
        2 => (r16(), pi_strategy()).prop_map(|(a, p)| Op::AssertEqConst(a, p)),
        2 => any::<bool>().prop_map(Op::Boolean),
        2 => (r16(), r16(), r16()).prop_map(|(bit, a, b)| Op::Select { bit, a, b }),
        1 => (r16(), r16()).prop_map(|(bit, v)| Op::SelectOne { bit, v }),
        1 => (r16(), r16()).prop_map(|(bit, v)| Op::SelectZero { bit, v }),
        2 => (0u16..=256, fe_any()).prop_map(|(bits, v)| Op::RangeBits { bits, v }),
        1 => (0u16..=160, fe_any()).prop_map(|(pairs, v)| Op::RangePairs { pairs, v }),
        2 => subgroup_pt().prop_map(Op::PointWit),
        1 => subgroup_pt().prop_map(Op::PointConst),
        1 => subgroup_pt().prop_map(Op::PointPublic),
        1 => r16().prop_map(Op::AssertEqPoint),
        1 => r16().prop_map(Op::AssertEqPublicPoint),
        1 => r16().prop_map(Op::TorsionFree),
        2 => (r16(), r16()).prop_map(|(p, q)| Op::AddPoint(p, q)),
        1 => (r16(), r16()).prop_map(|(p, q)| Op::SubPoint(p, q)),
        1 => r16().prop_map(Op::NegPoint),
        1 => (any::<bool>(), r16()).prop_map(|(bit, p)| Op::SelectIdentity { bit, p }),
        1 => (r16(), r16(), r16()).prop_map(|(bit, p, q)| Op::SelectPoint { bit, p, q }),
        2 => (coeff(), proptest::array::uniform5(coeff()), [r16(), r16(), r16(), r16()], pi_strategy())
            .prop_map(|(q_arith, q, w, pi)| Op::RawArith { q_arith, q, qc: Fe(F::zero()), w, pi }),
        1 => (0u16..6).prop_map(Op::Pad),
    ]
    .boxed()
}

/// ops costing ~100-250 gates
pub fn medium_op() -> BoxedStrategy<Op> {
    prop_oneof![
        3 => (any::<bool>(), 0u8..=127, r16(), r16())
            .prop_map(|(xor, pairs, a, b)| Op::Logic { xor, pairs, a, b }),
        3 => (0u8..=254, r16()).prop_map(|(n, a)| Op::Truncate { n, a }),
        2 => (1u16..=64, fe_any()).prop_map(|(n, v)| Op::Decompose { n, v }),
    ]
    .boxed()
}

/// ops costing 300-2100 gates
pub fn heavy_op() -> BoxedStrategy<Op> {
    prop_oneof![
        3 => (fe_any(), fe_random(), prop_oneof![2 => Just(fe_one()), 1 => Just(Fe(F::from(2u64))), 2 => crate::fe::fe_nonzero()]).prop_map(|(s, gen, z)| Op::MulGenerator { s, gen, z }),
        1 => (fe_any(), r16()).prop_map(|(s, p)| Op::MulPoint { s, p }),
        2 => (1u16..=256, fe_any()).prop_map(|(n, v)| Op::Decompose { n, v }),
    ]
    .boxed()
}

/// a program of light ops with occasional medium/heavy ones
pub fn ops_strategy(max_ops: usize, medium: u32, heavy: u32) -> BoxedStrategy<Vec<Op>> {
    let mut arms: Vec<(u32, BoxedStrategy<Op>)> = vec![(40, light_op())];
    if medium > 0 {
        arms.push((medium, medium_op()));
    }
    if heavy > 0 {
        arms.push((heavy, heavy_op()));
    }
    let op = proptest::strategy::Union::new_weighted(arms);
    proptest::collection::vec(op, 0..=max_ops).boxed()
}

/// With probability ~`per_mille`/1000, insert a run of `append_public` calls
/// (counts around the multiples of 16 and 32 where batched / chunked
/// evaluation code changes strategy; a fifth of the values zero) at a
/// generated position of the program.
pub fn with_pi_burst(base: BoxedStrategy<Vec<Op>>, per_mille: u32) -> BoxedStrategy<Vec<Op>> {
    let counts = prop_oneof![
        Just(15usize), Just(16usize), Just(17usize), Just(31usize), Just(32usize), Just(33usize), Just(34usize),
        Just(40usize), Just(47usize), Just(48usize), Just(49usize), Just(63usize), Just(64usize), Just(65usize), Just(100usize),
        8usize..130,
    ];
    let burst = (counts, any::<u64>(), any::<u16>()).prop_map(|(n, seed, pos)| {
        let vals = crate::fe::f_stream(seed, n);
        let ops: Vec<Op> = vals
            .iter()
            .enumerate()
            .map(|(i, v)| Op::Public(Fe(if (seed >> (i % 60)) & 7 == 0 { F::zero() } else { *v })))
            .collect();
        (ops, pos)
    });
    (base, proptest::option::weighted(per_mille as f64 / 1000.0, burst))
        .prop_map(|(mut ops, b)| {
            if let Some((burst, pos)) = b {
                let at = pick(pos, ops.len() + 1);
                for (i, o) in burst.into_iter().enumerate() {
                    ops.insert(at + i, o);
                }
            }
            ops
        })
        .boxed()
}
