//! Reference verifier: the PLONK (Dusk turbo variant) verification equation
//! and Fiat-Shamir transcript written from the protocol description, fed
//! only by `Verifier::to_bytes()`, `Proof::to_bytes()` and the public
//! inputs. Uses dusk-bls12_381 group/pairing operations and merlin directly;
//! shares no code with the crate under test.

use std::collections::HashMap;
use std::sync::{Mutex, OnceLock};

use dusk_bls12_381::{G1Affine, G1Projective, G2Affine};
use dusk_bytes::DeserializableSlice;
use merlin::Transcript;

use crate::fe::F;
use crate::naive;
use crate::spec::{self, RowVals};

#[derive(Clone, Copy, Debug, PartialEq, Eq)]
pub enum Version {
    V1,
    V2,
    V3,
}

#[derive(Clone, Debug)]
pub struct RefVerifier {
    pub label: Vec<u8>,
    pub vk_n: u64,
    /// byte order: q_m,q_l,q_r,q_o,q_f,q_c,q_arith,q_logic,q_range,q_fixed,q_var,s1..s4
    pub comm: [G1Affine; 15],
    pub g: G1Affine,
    pub h: G2Affine,
    pub x_h: G2Affine,
    pub pi_rows: Vec<u64>,
    pub size: u64,
    pub constraints: u64,
}

pub const VK_QM: usize = 0;
pub const VK_QL: usize = 1;
pub const VK_QR: usize = 2;
pub const VK_QO: usize = 3;
pub const VK_QF: usize = 4;
pub const VK_QC: usize = 5;
pub const VK_QARITH: usize = 6;
pub const VK_QLOGIC: usize = 7;
pub const VK_QRANGE: usize = 8;
pub const VK_QFIXED: usize = 9;
pub const VK_QVAR: usize = 10;
pub const VK_S1: usize = 11;
pub const VK_S2: usize = 12;
pub const VK_S3: usize = 13;
pub const VK_S4: usize = 14;

fn be64(b: &[u8]) -> u64 {
    u64::from_be_bytes(b[..8].try_into().unwrap())
}

impl RefVerifier {
    pub fn parse(bytes: &[u8]) -> Result<Self, String> {
        if bytes.len() < 48 {
            return Err("short header".into());
        }
        let label_len = be64(&bytes[0..]) as usize;
        let vk_len = be64(&bytes[8..]) as usize;
        let ok_len = be64(&bytes[16..]) as usize;
        let pi_count = be64(&bytes[24..]) as usize;
        let size = be64(&bytes[32..]);
        let constraints = be64(&bytes[40..]);
        let mut off = 48;
        let need = label_len + vk_len + ok_len + pi_count * 8;
        if bytes.len() < off + need {
            return Err("short body".into());
        }
        let label = bytes[off..off + label_len].to_vec();
        off += label_len;
        let vk = &bytes[off..off + vk_len];
        off += vk_len;
        let ok = &bytes[off..off + ok_len];
        off += ok_len;
        if vk_len < 8 + 15 * 48 || ok_len != 48 + 96 + 96 {
            return Err("unexpected key lengths".into());
        }
        let vk_n = u64::from_le_bytes(vk[..8].try_into().unwrap());
        let mut comm = [G1Affine::identity(); 15];
        for (i, c) in comm.iter_mut().enumerate() {
            *c = G1Affine::from_slice(&vk[8 + 48 * i..8 + 48 * (i + 1)])
                .map_err(|e| format!("vk commitment {i}: {e:?}"))?;
        }
        let g = G1Affine::from_slice(&ok[..48]).map_err(|e| format!("g: {e:?}"))?;
        let h = G2Affine::from_slice(&ok[48..144]).map_err(|e| format!("h: {e:?}"))?;
        let x_h =
            G2Affine::from_slice(&ok[144..240]).map_err(|e| format!("x_h: {e:?}"))?;
        let mut pi_rows = Vec::with_capacity(pi_count);
        for i in 0..pi_count {
            pi_rows.push(be64(&bytes[off + 8 * i..]));
        }
        Ok(RefVerifier {
            label,
            vk_n,
            comm,
            g,
            h,
            x_h,
            pi_rows,
            size,
            constraints,
        })
    }
}

#[derive(Clone, Debug)]
pub struct RefProof {
    /// a,b,c,d,z,t_low,t_mid,t_high,t_fourth,w_z,w_zw
    pub comm: [G1Affine; 11],
    /// a,b,c,d,a_w,b_w,d_w,q_arith,q_c,q_l,q_r,s1,s2,s3,z_w
    pub eval: [F; 15],
}

pub const PROOF_LEN: usize = 11 * 48 + 15 * 32;
pub const P_A: usize = 0;
pub const P_B: usize = 1;
pub const P_C: usize = 2;
pub const P_D: usize = 3;
pub const P_Z: usize = 4;
pub const P_T1: usize = 5;
pub const P_T2: usize = 6;
pub const P_T3: usize = 7;
pub const P_T4: usize = 8;
pub const P_W: usize = 9;
pub const P_WW: usize = 10;
pub const E_A: usize = 0;
pub const E_B: usize = 1;
pub const E_C: usize = 2;
pub const E_D: usize = 3;
pub const E_AW: usize = 4;
pub const E_BW: usize = 5;
pub const E_DW: usize = 6;
pub const E_QARITH: usize = 7;
pub const E_QC: usize = 8;
pub const E_QL: usize = 9;
pub const E_QR: usize = 10;
pub const E_S1: usize = 11;
pub const E_S2: usize = 12;
pub const E_S3: usize = 13;
pub const E_ZW: usize = 14;

impl RefProof {
    pub fn parse(bytes: &[u8]) -> Result<Self, String> {
        if bytes.len() != PROOF_LEN {
            return Err("proof length".into());
        }
        let mut comm = [G1Affine::identity(); 11];
        for (i, c) in comm.iter_mut().enumerate() {
            *c = G1Affine::from_slice(&bytes[48 * i..48 * (i + 1)])
                .map_err(|e| format!("commitment {i}: {e:?}"))?;
        }
        let mut eval = [F::zero(); 15];
        for (i, e) in eval.iter_mut().enumerate() {
            let o = 11 * 48 + 32 * i;
            *e = F::from_slice(&bytes[o..o + 32])
                .map_err(|e| format!("evaluation {i}: {e:?}"))?;
        }
        Ok(RefProof { comm, eval })
    }

    pub fn to_bytes(&self) -> Vec<u8> {
        use dusk_bytes::Serializable;
        let mut v = Vec::with_capacity(PROOF_LEN);
        for c in &self.comm {
            v.extend_from_slice(&c.to_bytes());
        }
        for e in &self.eval {
            v.extend_from_slice(&e.to_bytes());
        }
        v
    }
}

fn leak_label(label: &[u8]) -> &'static [u8] {
    static CACHE: OnceLock<Mutex<HashMap<Vec<u8>, &'static [u8]>>> =
        OnceLock::new();
    let m = CACHE.get_or_init(|| Mutex::new(HashMap::new()));
    let mut g = m.lock().unwrap();
    if let Some(l) = g.get(label) {
        return l;
    }
    let l: &'static [u8] = Box::leak(label.to_vec().into_boxed_slice());
    g.insert(label.to_vec(), l);
    l
}

fn app_g1(t: &mut Transcript, label: &'static [u8], p: &G1Affine) {
    use dusk_bytes::Serializable;
    t.append_message(label, &p.to_bytes());
}

fn app_f(t: &mut Transcript, label: &'static [u8], s: &F) {
    t.append_message(label, &s.to_bytes());
}

fn chal(t: &mut Transcript, label: &'static [u8]) -> F {
    let mut buf = [0u8; 64];
    t.challenge_bytes(label, &mut buf);
    F::from_bytes_wide(&buf)
}

#[derive(Clone, Debug)]
pub struct Challenges {
    pub beta: F,
    pub gamma: F,
    pub alpha: F,
    pub s_range: F,
    pub s_logic: F,
    pub s_fixed: F,
    pub s_var: F,
    pub z: F,
    pub v: F,
    pub v_w: F,
    pub u: F,
}

/// The protocol transcript up to (and including) the public inputs.
pub fn base_transcript(rv: &RefVerifier, pi: &[F], version: Version) -> Transcript {
    let mut t = Transcript::new(leak_label(&rv.label));
    t.append_message(b"dom-sep", b"circuit_size");
    t.append_u64(b"n", rv.constraints);
    app_g1(&mut t, b"q_m", &rv.comm[VK_QM]);
    app_g1(&mut t, b"q_l", &rv.comm[VK_QL]);
    app_g1(&mut t, b"q_r", &rv.comm[VK_QR]);
    app_g1(&mut t, b"q_o", &rv.comm[VK_QO]);
    app_g1(&mut t, b"q_c", &rv.comm[VK_QC]);
    app_g1(&mut t, b"q_f", &rv.comm[VK_QF]);
    app_g1(&mut t, b"q_arith", &rv.comm[VK_QARITH]);
    app_g1(&mut t, b"q_range", &rv.comm[VK_QRANGE]);
    app_g1(&mut t, b"q_logic", &rv.comm[VK_QLOGIC]);
    app_g1(&mut t, b"q_variable_group_add", &rv.comm[VK_QVAR]);
    app_g1(&mut t, b"q_fixed_group_add", &rv.comm[VK_QFIXED]);
    app_g1(&mut t, b"s_sigma_1", &rv.comm[VK_S1]);
    app_g1(&mut t, b"s_sigma_2", &rv.comm[VK_S2]);
    app_g1(&mut t, b"s_sigma_3", &rv.comm[VK_S3]);
    // the legacy profiles bind sigma_1 a second time in the sigma_4 slot
    let s4 = match version {
        Version::V3 => &rv.comm[VK_S4],
        _ => &rv.comm[VK_S1],
    };
    app_g1(&mut t, b"s_sigma_4", s4);
    t.append_message(b"dom-sep", b"circuit_size");
    t.append_u64(b"n", rv.vk_n);
    for p in pi {
        app_f(&mut t, b"pi", p);
    }
    t
}

pub fn challenges(
    rv: &RefVerifier,
    p: &RefProof,
    pi: &[F],
    version: Version,
) -> Challenges {
    challenges_keep(rv, p, pi, version, None)
}

/// `challenges`, optionally handing out the transcript state right after
/// `v_w` (before the two opening commitments are absorbed).
pub fn challenges_keep(
    rv: &RefVerifier,
    p: &RefProof,
    pi: &[F],
    version: Version,
    before_openings: Option<&mut Option<Transcript>>,
) -> Challenges {
    let mut t = base_transcript(rv, pi, version);
    app_g1(&mut t, b"a_comm", &p.comm[P_A]);
    app_g1(&mut t, b"b_comm", &p.comm[P_B]);
    app_g1(&mut t, b"c_comm", &p.comm[P_C]);
    app_g1(&mut t, b"d_comm", &p.comm[P_D]);
    let beta = chal(&mut t, b"beta");
    app_f(&mut t, b"beta", &beta);
    let gamma = chal(&mut t, b"gamma");
    app_g1(&mut t, b"z_comm", &p.comm[P_Z]);
    let alpha = chal(&mut t, b"alpha");
    let s_range = chal(&mut t, b"range separation challenge");
    let s_logic = chal(&mut t, b"logic separation challenge");
    let s_fixed = chal(&mut t, b"fixed base separation challenge");
    let s_var = chal(&mut t, b"variable base separation challenge");
    app_g1(&mut t, b"t_low_comm", &p.comm[P_T1]);
    app_g1(&mut t, b"t_mid_comm", &p.comm[P_T2]);
    app_g1(&mut t, b"t_high_comm", &p.comm[P_T3]);
    app_g1(&mut t, b"t_fourth_comm", &p.comm[P_T4]);
    let z = chal(&mut t, b"z_challenge");
    app_f(&mut t, b"a_eval", &p.eval[E_A]);
    app_f(&mut t, b"b_eval", &p.eval[E_B]);
    app_f(&mut t, b"c_eval", &p.eval[E_C]);
    app_f(&mut t, b"d_eval", &p.eval[E_D]);
    app_f(&mut t, b"s_sigma_1_eval", &p.eval[E_S1]);
    app_f(&mut t, b"s_sigma_2_eval", &p.eval[E_S2]);
    app_f(&mut t, b"s_sigma_3_eval", &p.eval[E_S3]);
    app_f(&mut t, b"z_eval", &p.eval[E_ZW]);
    app_f(&mut t, b"a_w_eval", &p.eval[E_AW]);
    app_f(&mut t, b"b_w_eval", &p.eval[E_BW]);
    app_f(&mut t, b"d_w_eval", &p.eval[E_DW]);
    app_f(&mut t, b"q_arith_eval", &p.eval[E_QARITH]);
    app_f(&mut t, b"q_c_eval", &p.eval[E_QC]);
    app_f(&mut t, b"q_l_eval", &p.eval[E_QL]);
    app_f(&mut t, b"q_r_eval", &p.eval[E_QR]);
    let v = chal(&mut t, b"v_challenge");
    let v_w = chal(&mut t, b"v_w_challenge");
    if let Some(keep) = before_openings {
        *keep = Some(t.clone());
    }
    app_g1(&mut t, b"w_z_chall_comm", &p.comm[P_W]);
    app_g1(&mut t, b"w_z_chall_w_comm", &p.comm[P_WW]);
    let u = chal(&mut t, b"u_challenge");
    Challenges {
        beta,
        gamma,
        alpha,
        s_range,
        s_logic,
        s_fixed,
        s_var,
        z,
        v,
        v_w,
        u,
    }
}

pub const K1: u64 = 7;
pub const K2: u64 = 13;
pub const K3: u64 = 17;

#[derive(Clone, Debug)]
pub struct Verdict {
    pub accept: bool,
    pub reason: &'static str,
}

fn smul(p: &G1Affine, s: &F) -> G1Projective {
    G1Projective::from(*p) * *s
}

/// PI(z) by the dense definition: sum_j pi_j * L_{row_j}(z)
pub fn pi_eval_dense(log_n: u32, rows: &[u64], pi: &[F], z: &F, z_h: &F) -> Option<F> {
    let n = 1u64 << log_n;
    let w = naive::omega(log_n);
    let n_inv = F::from(n).invert()?;
    let mut acc = F::zero();
    for (r, p) in rows.iter().zip(pi) {
        let wr = naive::pow(w, *r);
        // L_r(z) = w^r (z^n - 1) / (n (z - w^r))
        let den = (z - wr).invert()?;
        acc += p * wr * z_h * n_inv * den;
    }
    Some(acc)
}

/// Decide acceptance from the protocol's equation.
pub fn verify(rv: &RefVerifier, p: &RefProof, pi: &[F], version: Version) -> Verdict {
    if pi.len() != rv.pi_rows.len() {
        return Verdict {
            accept: false,
            reason: "public-input length",
        };
    }
    let ch = challenges(rv, p, pi, version);
    let n_u = (rv.vk_n.max(1)).next_power_of_two();
    let log_n = n_u.trailing_zeros();
    let w = naive::omega(log_n);
    let z = ch.z;
    let z_n = naive::pow(z, n_u);
    let z_h = z_n - F::one();
    if z_h == F::zero() {
        // evaluation formulas are undefined on the domain
        return Verdict {
            accept: false,
            reason: "challenge inside the domain",
        };
    }
    let n_f = F::from(n_u);
    let l1 = z_h * (n_f * (z - F::one())).invert().unwrap();
    let Some(pi_z) = pi_eval_dense(log_n, &rv.pi_rows, pi, &z, &z_h) else {
        return Verdict {
            accept: false,
            reason: "challenge inside the domain",
        };
    };
    let e = &p.eval;
    let (a, b, c, d) = (e[E_A], e[E_B], e[E_C], e[E_D]);
    let (a_w, b_w, d_w) = (e[E_AW], e[E_BW], e[E_DW]);
    let (s1, s2, s3, z_w) = (e[E_S1], e[E_S2], e[E_S3], e[E_ZW]);
    let (beta, gamma, alpha) = (ch.beta, ch.gamma, ch.alpha);
    let alpha2 = alpha.square();

    let r0 = pi_z
        - l1 * alpha2
        - alpha
            * (a + beta * s1 + gamma)
            * (b + beta * s2 + gamma)
            * (c + beta * s3 + gamma)
            * (d + gamma)
            * z_w;

    let rvals = RowVals {
        a,
        b,
        c,
        d,
        a_n: a_w,
        b_n: b_w,
        d_n: d_w,
    };
    let mut sel = [F::zero(); 11];
    sel[spec::Q_C] = e[E_QC];
    sel[spec::Q_L] = e[E_QL];
    sel[spec::Q_R] = e[E_QR];

    let weigh = |sep: &F, comps: &[F]| -> F {
        let kappa = sep.square();
        let mut k = F::one();
        let mut acc = F::zero();
        for cpt in comps {
            acc += *cpt * k;
            k *= kappa;
        }
        acc * sep
    };

    let mut big_d = G1Projective::identity();
    // arithmetic
    let qa = e[E_QARITH];
    big_d += smul(&rv.comm[VK_QM], &(a * b * qa));
    big_d += smul(&rv.comm[VK_QL], &(a * qa));
    big_d += smul(&rv.comm[VK_QR], &(b * qa));
    big_d += smul(&rv.comm[VK_QO], &(c * qa));
    big_d += smul(&rv.comm[VK_QF], &(d * qa));
    big_d += smul(&rv.comm[VK_QC], &qa);
    // custom gates
    big_d += smul(
        &rv.comm[VK_QRANGE],
        &weigh(&ch.s_range, &spec::range_components(&rvals)),
    );
    big_d += smul(
        &rv.comm[VK_QLOGIC],
        &weigh(&ch.s_logic, &spec::logic_components(&sel, &rvals)),
    );
    big_d += smul(
        &rv.comm[VK_QFIXED],
        &weigh(&ch.s_fixed, &spec::fixed_components(&sel, &rvals)),
    );
    big_d += smul(
        &rv.comm[VK_QVAR],
        &weigh(&ch.s_var, &spec::var_components(&rvals)),
    );
    // permutation
    let k1 = F::from(K1);
    let k2 = F::from(K2);
    let k3 = F::from(K3);
    let zc = alpha
        * (a + beta * z + gamma)
        * (b + beta * k1 * z + gamma)
        * (c + beta * k2 * z + gamma)
        * (d + beta * k3 * z + gamma)
        + l1 * alpha2
        + ch.u;
    big_d += smul(&p.comm[P_Z], &zc);
    let sc = -(alpha
        * beta
        * z_w
        * (a + beta * s1 + gamma)
        * (b + beta * s2 + gamma)
        * (c + beta * s3 + gamma));
    big_d += smul(&rv.comm[VK_S4], &sc);
    // quotient
    let mut zp = F::one();
    for i in 0..4 {
        big_d += smul(&p.comm[P_T1 + i], &(-(z_h * zp)));
        zp *= z_n;
    }

    // batched openings
    let v = ch.v;
    let mut f = big_d;
    let mut e_acc = -r0;
    let mut vp = v;
    let at_z: Vec<(G1Affine, F)> = {
        let mut l = vec![
            (p.comm[P_A], a),
            (p.comm[P_B], b),
            (p.comm[P_C], c),
            (p.comm[P_D], d),
            (rv.comm[VK_S1], s1),
            (rv.comm[VK_S2], s2),
            (rv.comm[VK_S3], s3),
        ];
        if version != Version::V1 {
            l.push((rv.comm[VK_QARITH], e[E_QARITH]));
            l.push((rv.comm[VK_QC], e[E_QC]));
            l.push((rv.comm[VK_QL], e[E_QL]));
            l.push((rv.comm[VK_QR], e[E_QR]));
        }
        l
    };
    for (cm, ev) in &at_z {
        f += smul(cm, &vp);
        e_acc += vp * ev;
        vp *= v;
    }
    let u = ch.u;
    let mut vwp = ch.v_w;
    e_acc += u * z_w;
    for (cm, ev) in [(p.comm[P_A], a_w), (p.comm[P_B], b_w), (p.comm[P_D], d_w)] {
        f += smul(&cm, &(u * vwp));
        e_acc += u * vwp * ev;
        vwp *= ch.v_w;
    }

    let left = G1Projective::from(p.comm[P_W]) + smul(&p.comm[P_WW], &u);
    let right = smul(&p.comm[P_W], &z) + smul(&p.comm[P_WW], &(u * z * w)) + f
        - smul(&rv.g, &e_acc);
    let lhs = dusk_bls12_381::pairing(&G1Affine::from(left), &rv.x_h);
    let rhs = dusk_bls12_381::pairing(&G1Affine::from(right), &rv.h);
    Verdict {
        accept: lhs == rhs,
        reason: if lhs == rhs { "equation holds" } else { "equation fails" },
    }
}

/// Malicious prover against a verifier whose folding challenge `u` does not
/// (fully) depend on the two opening commitments. `u` is the only challenge
/// the prover never computes, so a verifier that derives it too early accepts
/// every honest proof - the weakness only shows under this attack: with `u`
/// known before the pair is fixed, shift it so that two individually false
/// openings cancel in the folded pairing check,
///     W' = W + s [x - z w]_1        W_w' = W_w - (s/u) [x - z]_1
/// (`(x-z)(W'-W) + u (x - z w)(W_w'-W_w) = 0`). `early` = 0: `u` as drawn
/// before either commitment is absorbed; 1: after absorbing only `W'`; 2: after
/// absorbing `W'` under both labels; 3: `W'` under the second label only (in
/// every variant `u` does not depend on `W_w'`).
/// `x_g` = [x]_1 from the public parameters. A correct verifier rejects the
/// result (its `u` differs), and so does the reference verifier.
pub fn late_bound_opening_pair(
    rv: &RefVerifier,
    p: &RefProof,
    pi: &[F],
    version: Version,
    early: u8,
    x_g: &G1Affine,
    s: &F,
) -> Option<RefProof> {
    let mut keep = None;
    let ch = challenges_keep(rv, p, pi, version, Some(&mut keep));
    let mut t = keep?;
    let n_u = (rv.vk_n.max(1)).next_power_of_two();
    let w = naive::omega(n_u.trailing_zeros());
    let z = ch.z;
    // [x - z w]_1 and [x - z]_1
    let x_zw = G1Projective::from(*x_g) - smul(&rv.g, &(z * w));
    let x_z = G1Projective::from(*x_g) - smul(&rv.g, &z);
    let mut out = p.clone();
    out.comm[P_W] = G1Affine::from(G1Projective::from(p.comm[P_W]) + x_zw * *s);
    match early {
        // u drawn after absorbing only the first opening commitment
        1 => app_g1(&mut t, b"w_z_chall_comm", &out.comm[P_W]),
        // ... after absorbing the FIRST commitment under both labels (the
        // second append passes the wrong commitment)
        2 => {
            app_g1(&mut t, b"w_z_chall_comm", &out.comm[P_W]);
            app_g1(&mut t, b"w_z_chall_w_comm", &out.comm[P_W]);
        }
        // ... after absorbing the first commitment under the second label only
        3 => app_g1(&mut t, b"w_z_chall_w_comm", &out.comm[P_W]),
        _ => {}
    }
    let u = chal(&mut t, b"u_challenge");
    let u_inv = Option::<F>::from(u.invert())?;
    out.comm[P_WW] = G1Affine::from(G1Projective::from(p.comm[P_WW]) - x_z * (*s * u_inv));
    Some(out)
}

pub fn version_of(v: dusk_plonk::prelude::PlonkVersion) -> Version {
    use dusk_plonk::prelude::PlonkVersion as P;
    match v {
        P::V1 => Version::V1,
        P::V2 => Version::V2,
        _ => Version::V3,
    }
}

pub fn to_plonk_version(v: Version) -> dusk_plonk::prelude::PlonkVersion {
    use dusk_plonk::prelude::PlonkVersion as P;
    match v {
        Version::V1 => P::V1,
        Version::V2 => P::V2,
        Version::V3 => P::V3,
    }
}
