//! Counting global allocator with per-thread accounting: current and peak
//! live bytes allocated by the current thread since the last reset.

use std::alloc::{GlobalAlloc, Layout, System};
use std::cell::Cell;

pub struct Counting;

thread_local! {
    static CUR: Cell<isize> = const { Cell::new(0) };
    static PEAK: Cell<isize> = const { Cell::new(0) };
}

unsafe impl GlobalAlloc for Counting {
    unsafe fn alloc(&self, l: Layout) -> *mut u8 {
        let p = unsafe { System.alloc(l) };
        if !p.is_null() {
            let _ = CUR.try_with(|c| {
                let v = c.get() + l.size() as isize;
                c.set(v);
                let _ = PEAK.try_with(|p| {
                    if v > p.get() {
                        p.set(v)
                    }
                });
            });
        }
        p
    }
    unsafe fn dealloc(&self, p: *mut u8, l: Layout) {
        unsafe { System.dealloc(p, l) };
        let _ = CUR.try_with(|c| c.set(c.get() - l.size() as isize));
    }
    unsafe fn realloc(&self, p: *mut u8, l: Layout, new: usize) -> *mut u8 {
        let q = unsafe { System.realloc(p, l, new) };
        if !q.is_null() {
            let _ = CUR.try_with(|c| {
                let v = c.get() + new as isize - l.size() as isize;
                c.set(v);
                let _ = PEAK.try_with(|p| {
                    if v > p.get() {
                        p.set(v)
                    }
                });
            });
        }
        q
    }
}

/// Run `f` and return (result, peak bytes allocated by this thread above the
/// level at entry).
pub fn measure<T>(f: impl FnOnce() -> T) -> (T, usize) {
    let base = CUR.with(|c| c.get());
    PEAK.with(|p| p.set(base));
    let r = f();
    let peak = PEAK.with(|p| p.get());
    (r, (peak - base).max(0) as usize)
}
