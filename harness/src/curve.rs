//! JubJub as a twisted Edwards curve -x^2 + y^2 = 1 + d x^2 y^2 over the BLS
//! scalar field, written directly in field arithmetic (independent of the
//! group code the composer uses for witness generation).

use dusk_jubjub::EDWARDS_D;
use ff::Field;

use crate::fe::{f_int, F, RJ_MOD, U256};

pub type Pt = (F, F);

pub const IDENTITY: fn() -> Pt = || (F::zero(), F::one());

pub fn identity() -> Pt {
    (F::zero(), F::one())
}

pub fn generator() -> Pt {
    let g = dusk_jubjub::GENERATOR;
    (g.get_u(), g.get_v())
}

pub fn generator_nums() -> Pt {
    let g = dusk_jubjub::GENERATOR_NUMS;
    (g.get_u(), g.get_v())
}

pub fn on_curve(p: &Pt) -> bool {
    let x2 = p.0.square();
    let y2 = p.1.square();
    y2 - x2 == F::one() + EDWARDS_D * x2 * y2
}

/// affine addition law; None on a pole (only for points off the curve or
/// exceptional pairs, which do not exist for on-curve points here)
pub fn add(p: &Pt, q: &Pt) -> Option<Pt> {
    let (x1, y1) = *p;
    let (x2, y2) = *q;
    let t = EDWARDS_D * x1 * x2 * y1 * y2;
    let dx = (F::one() + t).invert()?;
    let dy = (F::one() - t).invert()?;
    Some(((x1 * y2 + y1 * x2) * dx, (y1 * y2 + x1 * x2) * dy))
}

pub fn neg(p: &Pt) -> Pt {
    (-p.0, p.1)
}

pub fn double(p: &Pt) -> Option<Pt> {
    add(p, p)
}

pub fn mul(k: &U256, p: &Pt) -> Option<Pt> {
    let mut acc = identity();
    for i in (0..k.bit_len()).rev() {
        acc = double(&acc)?;
        if k.bit(i) {
            acc = add(&acc, p)?;
        }
    }
    Some(acc)
}

pub fn mul_f(k: &F, p: &Pt) -> Option<Pt> {
    mul(&f_int(k), p)
}

/// [k]G for the standard generator
pub fn gmul(k: &F) -> Pt {
    mul_f(k, &generator()).expect("complete on the curve")
}

/// membership in the prime-order subgroup (identity included)
pub fn in_subgroup(p: &Pt) -> bool {
    on_curve(p) && mul(&RJ_MOD, p) == Some(identity())
}

pub fn is_identity(p: &Pt) -> bool {
    *p == identity()
}

/// a curve point with the given x, if one exists
pub fn lift_x(x: &F) -> Option<Pt> {
    // y^2 (1 - d x^2) = 1 + x^2
    let x2 = x.square();
    let den = (F::one() - EDWARDS_D * x2).invert()?;
    let y2 = (F::one() + x2) * den;
    let y: Option<F> = y2.sqrt().into();
    y.map(|y| (*x, y))
}

/// some curve point derived from a seed (not necessarily in the subgroup)
pub fn curve_point_from_seed(seed: u64) -> Pt {
    let mut x = F::from(seed).square() + F::from(seed) + F::from(3u64);
    loop {
        if let Some(p) = lift_x(&x) {
            return p;
        }
        x += F::one();
    }
}

/// torsion point of exact order 8 (generates the torsion subgroup)
pub fn torsion8() -> Pt {
    let mut seed = 1u64;
    loop {
        let r = curve_point_from_seed(seed);
        let t = mul(&RJ_MOD, &r).expect("complete");
        // order 8 iff [4]t != identity
        let t4 = double(&double(&t).unwrap()).unwrap();
        if t4 != identity() {
            return t;
        }
        seed += 1;
    }
}

/// the 8 torsion points [i]T8, i = 0..8 (orders 1,8,4,8,2,8,4,8)
pub fn torsion_points() -> Vec<Pt> {
    let t = torsion8();
    let mut v = vec![identity()];
    for i in 1..8 {
        v.push(add(&v[i - 1], &t).unwrap());
    }
    v
}

pub fn to_affine(p: &Pt) -> dusk_jubjub::JubJubAffine {
    dusk_jubjub::JubJubAffine::from_raw_unchecked(p.0, p.1)
}

pub fn to_extended(p: &Pt) -> dusk_jubjub::JubJubExtended {
    dusk_jubjub::JubJubExtended::from_affine(to_affine(p))
}

/// 8^-1 mod r_J times P, for a subgroup point: the honest auxiliary point
pub fn eighth(p: &Pt) -> Pt {
    // 8^-1 mod r_J via Fermat on small numbers is awkward; compute with
    // integers: find k with 8k = 1 mod r_J  => k = (1 + m r_J)/8 for the m
    // in 0..8 making it divisible.
    for m in 0u64..8 {
        // (1 + m*r_J) mod 8
        let mut acc = U256::ONE;
        for _ in 0..m {
            acc = acc.add(RJ_MOD).0;
        }
        if acc.0[0] % 8 == 0 {
            let k = acc.shr(3);
            return mul(&k, p).expect("complete");
        }
    }
    unreachable!()
}
