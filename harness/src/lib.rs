pub mod checks;
pub mod fe;
pub mod naive;
pub mod runner;
