pub mod alloc_count;
pub mod checks;
pub mod curve;
pub mod dispatch;
pub mod fe;
pub mod mutate;
pub mod gadget;
pub mod naive;
pub mod prog;
pub mod refprover;
pub mod refver;
pub mod runner;
pub mod spec;
pub mod sys;

#[global_allocator]
static GLOBAL: alloc_count::Counting = alloc_count::Counting;
