//! Adversarial-assignment toolkit for the gadget properties (C08-C14).
//!
//! A gadget circuit is built once (layout + honest witness table). Candidate
//! assignments are witness vectors on the UNCHANGED layout, judged by the
//! reference row evaluator and, for anything interesting, by the real
//! prover. Crafted candidates are produced by "role models": the list of
//! values of the witnesses a gadget allocates, in allocation order, as a
//! function of attacker choices. Each role model is validated on honest
//! choices against the honest witness table before it is trusted.

use std::sync::Arc;

use dusk_plonk::prelude::Error;

use crate::curve::{self, Pt};
use crate::fe::{f_int, f_of, f_pow2, F, R_MOD, U256};
use crate::prog::{self, Op, Program, Trace};
use crate::runner::Fail;
use crate::spec::{self, Layout, Unsat};
use crate::sys::{self, Route};

pub struct Gad {
    pub program: Arc<Program>,
    pub layout: Layout,
    pub wit: Vec<F>,
    pub pi_dense: Vec<F>,
    pub trace: Trace,
}

impl Gad {
    pub fn build(ops: Vec<Op>, solve: bool) -> Result<Gad, Error> {
        let mut p = Program::solved(ops);
        p.mode.solve = solve;
        let program = Arc::new(p);
        let (c, trace) = prog::build(&program)?;
        let snap = c.verif_snapshot();
        let layout = Layout::from_snapshot(&snap);
        let mut pi_dense = vec![F::zero(); layout.size()];
        for (r, v) in &snap.public_inputs {
            pi_dense[*r] = *v;
        }
        Ok(Gad {
            program,
            layout,
            wit: snap.witnesses,
            pi_dense,
            trace,
        })
    }

    /// reference verdict for a full witness assignment on this layout
    pub fn eval(&self, assignment: &[F]) -> Vec<Unsat> {
        let table = spec::wire_table(&self.layout, assignment);
        spec::eval_rows(&self.layout, &table, &self.pi_dense)
    }

    pub fn honest_unsat(&self) -> Vec<Unsat> {
        self.eval(&self.wit)
    }

    pub fn with(&self, edits: &[(usize, F)]) -> Vec<F> {
        let mut a = self.wit.clone();
        for (i, v) in edits {
            if *i < a.len() {
                a[*i] = *v;
            }
        }
        a
    }

    /// replace the witnesses allocated by op `op` (from `offset` within the
    /// op's allocation) by `vec`
    pub fn splice(&self, base: &[F], op: usize, offset: usize, vec: &[F]) -> Vec<F> {
        let mut a = base.to_vec();
        let (start, end) = self.op_wits(op);
        for (k, v) in vec.iter().enumerate() {
            let i = start + offset + k;
            if i < end {
                a[i] = *v;
            }
        }
        a
    }

    /// witness index range allocated by op `op`
    pub fn op_wits(&self, op: usize) -> (usize, usize) {
        let ((w0, _), (w1, _)) = self.trace.op_range[op];
        (w0, w1)
    }

    pub fn op_gates(&self, op: usize) -> (usize, usize) {
        let ((_, g0), (_, g1)) = self.trace.op_range[op];
        (g0, g1)
    }

    /// does the role-model vector reproduce the honest allocation of `op`?
    pub fn role_model_matches(&self, op: usize, offset: usize, vec: &[F]) -> bool {
        let (start, end) = self.op_wits(op);
        if start + offset + vec.len() != end {
            return false;
        }
        self.wit[start + offset..end] == *vec
    }

    /// witness index of handle `h`
    pub fn handle_wit(&self, h: usize) -> usize {
        self.trace.wits[h].index()
    }

    /// Prove this assignment with the real prover (keys compiled from the
    /// honest program) and verify the result. Ok(true) = a proof was produced
    /// and the verifier accepted it.
    pub fn prove_assignment(&self, assignment: &[F], seed: u64) -> Result<Result<bool, Error>, Fail> {
        let n = self.layout.rows.len();
        let pp = sys::pp(sys::min_capacity(n).max(32));
        let (prover, verifier) = sys::compile(&pp, b"gadget", &self.program, Route::Instance)
            .map_err(|e| Fail::new("compile-error", format!("{e:?}")))?;
        let mut inst = (*self.program).clone();
        inst.overrides = assignment
            .iter()
            .enumerate()
            .filter(|(i, v)| self.wit[*i] != **v)
            .map(|(i, v)| (i, *v))
            .collect();
        let inst = Arc::new(inst);
        let r = crate::runner::no_panic("prove-panic", || sys::prove(&prover, &inst, seed))?;
        Ok(match r {
            Err(e) => Err(e),
            Ok((proof, pi)) => Ok(verifier.verify(&proof, &pi).is_ok()),
        })
    }
}

/// Role-free adversary: every wire as the gadget's own witness generation
/// computes it for OTHER inputs, with the input witnesses `inputs` put back to
/// this circuit's values. Returns None when the two builds do not share the
/// layout.
pub fn transplant(target: &Gad, other: &Gad, inputs: &[usize]) -> Option<Vec<F>> {
    if target.layout != other.layout || target.wit.len() != other.wit.len() {
        return None;
    }
    let mut a = other.wit.clone();
    for i in inputs {
        a[*i] = target.wit[*i];
    }
    Some(a)
}

/// Sampled cross-validation of adversarial assignments: about one in `rate`
/// candidates is also given to the real prover, which must agree with the
/// reference evaluator (catches weakenings of the proof system itself that
/// make a forged assignment provable).
pub fn maybe_cross(g: &Gad, assignment: &[F], seed: u64, salt: usize, rate: u64, what: &str) -> Result<bool, Fail> {
    let h = crate::runner::splitmix(seed ^ (salt as u64).wrapping_mul(0x9E37_79B9));
    if h % rate != 0 {
        return Ok(false);
    }
    cross_check(g, assignment, seed, what)?;
    Ok(true)
}

/// Evaluator and real prover must agree on an assignment (sampled
/// cross-validation of the oracle itself).
pub fn cross_check(g: &Gad, assignment: &[F], seed: u64, what: &str) -> Result<(), Fail> {
    let unsat = g.eval(assignment);
    match g.prove_assignment(assignment, seed)? {
        Ok(true) if unsat.is_empty() => Ok(()),
        Err(Error::CircuitUnsatisfied) if !unsat.is_empty() => Ok(()),
        Ok(true) => Err(Fail::new(
            format!("prover-accepts-evaluator-rejects:{}", unsat[0].family),
            format!("{what}: real prover proved and verifier accepted an assignment the reference evaluator rejects: {:?}", &unsat[..unsat.len().min(3)]),
        )),
        Ok(false) => Err(Fail::new(
            "proof-fails-verification",
            format!("{what}: prove returned a proof that does not verify"),
        )),
        Err(e) => Err(Fail::new(
            format!("evaluator-accepts-prover-rejects:{}", sys::err_name(&e)),
            format!("{what}: reference evaluator finds the assignment {} but prove returned {e:?}", if unsat.is_empty() { "satisfying" } else { "unsatisfying" }),
        )),
    }
}

// ------------------------------------------------------------------
// propagation adversary (model-free)

/// Greedy constraint propagation on the UNCHANGED layout: a malicious prover
/// who has decided the values of the `pinned` witnesses (already written into
/// `start`) and now tries to make every row hold by re-solving one other
/// witness per broken identity:
///
/// * an arithmetic row is solved for one of its wires (a witness that occupies
///   exactly one wire of the row, has a non-zero coefficient and has not been
///   decided yet);
/// * a broken base-4 step `x - 4y in {0,1,2,3}` of a range row is solved for
///   `x` (or, when `x` is decided, for `y`) keeping the digit of the honest
///   table (or, for `y`, any digit that makes the division exact);
///
/// rows of the other families are not re-solved (the attempt fails when one
/// of them breaks). Witness choice among the candidates: allocation order,
/// latest first (`late = true`) or earliest first. Returns the completed
/// assignment when every row identity holds.
pub fn propagate(g: &Gad, start: &[F], pinned: &[usize], late: bool) -> Option<Vec<F>> {
    use spec::{Q_ARITH, Q_F, Q_L, Q_M, Q_O, Q_R, Q_RANGE};
    let layout = &g.layout;
    let nrows = layout.rows.len();
    let size = layout.size().max(1);
    let mut a = start.to_vec();
    let mut decided = vec![false; a.len()];
    for i in pinned {
        if *i < decided.len() {
            decided[*i] = true;
        }
    }
    // the constant witnesses ZERO and ONE are what they are
    for i in 0..2.min(decided.len()) {
        decided[i] = true;
    }
    // rows that read each witness (a row also reads the a, b, d wires of its successor)
    let mut uses: Vec<Vec<usize>> = vec![Vec::new(); a.len()];
    for (i, r) in layout.rows.iter().enumerate() {
        for k in 0..4 {
            uses[r.w[k]].push(i);
            if k != 2 {
                uses[r.w[k]].push((i + size - 1) % size);
            }
        }
    }
    let mut table = spec::wire_table(layout, &a);
    let set = |a: &mut Vec<F>, table: &mut Vec<[F; 4]>, w: usize, v: F| {
        a[w] = v;
        for (i, r) in layout.rows.iter().enumerate() {
            for k in 0..4 {
                if r.w[k] == w {
                    table[i][k] = v;
                }
            }
        }
    };
    let honest_table = spec::wire_table(layout, &g.wit);
    let mut queue: std::collections::VecDeque<usize> = (0..nrows).collect();
    let mut steps = 0usize;
    let four = F::from(4u64);
    let four_inv = four.invert().unwrap();
    while let Some(i) = queue.pop_front() {
        if i >= nrows {
            continue;
        }
        let mut bad = Vec::new();
        spec::eval_row(layout, &table, &g.pi_dense, i, &mut bad);
        let Some(first) = bad.first() else { continue };
        steps += 1;
        if steps > 4 * a.len() + 16 {
            return None;
        }
        let r = &layout.rows[i];
        let v = spec::row_vals(&table, i);
        let mut change: Option<(usize, F)> = None;
        match first.family {
            "arithmetic" => {
                let qa = r.sel[Q_ARITH];
                let pi = g.pi_dense.get(i).copied().unwrap_or(F::zero());
                let res = qa * spec::arith_inner(&r.sel, &v) + pi;
                let coef = [
                    qa * (r.sel[Q_M] * v.b + r.sel[Q_L]),
                    qa * (r.sel[Q_M] * v.a + r.sel[Q_R]),
                    qa * r.sel[Q_O],
                    qa * r.sel[Q_F],
                ];
                let cur = [v.a, v.b, v.c, v.d];
                let mut cands: Vec<(usize, F)> = Vec::new();
                for k in 0..4 {
                    let w = r.w[k];
                    if decided[w] || r.w.iter().filter(|x| **x == w).count() != 1 {
                        continue;
                    }
                    if let Some(inv) = Option::<F>::from(coef[k].invert()) {
                        cands.push((w, cur[k] - res * inv));
                    }
                }
                cands.sort_by_key(|c| c.0);
                change = if late { cands.last().copied() } else { cands.first().copied() };
            }
            "range" if r.sel[Q_RANGE] != F::zero() => {
                // steps (x, y): (c, d), (b, c), (a, b), (d_next, a)
                let nx = (i + 1) % size;
                let next_d_w = if nx < nrows { Some(layout.rows[nx].w[3]) } else { None };
                let pairs: [(Option<usize>, F, usize, F, F, F); 4] = [
                    (Some(r.w[2]), v.c, r.w[3], v.d, honest_table[i][2], honest_table[i][3]),
                    (Some(r.w[1]), v.b, r.w[2], v.c, honest_table[i][1], honest_table[i][2]),
                    (Some(r.w[0]), v.a, r.w[1], v.b, honest_table[i][0], honest_table[i][1]),
                    (next_d_w, v.d_n, r.w[0], v.a, honest_table[nx][3], honest_table[i][0]),
                ];
                let k = spec::RANGE_NAMES.iter().position(|n| *n == first.component).unwrap_or(0);
                let (xw, x, yw, y, hx, hy) = pairs[k];
                let digit = hx - four * hy;
                match xw {
                    Some(xw) if !decided[xw] => change = Some((xw, four * y + digit)),
                    _ => {
                        if !decided[yw] {
                            // y = (x - d) / 4 with the base-4 digit of x as an
                            // integer (the chain must end at the zero anchor);
                            // the honest digit when x is not a small integer
                            let xi = f_int(&x);
                            if xi.fits(250) {
                                let d = F::from(xi.0[0] & 3);
                                change = Some((yw, f_of(xi.shr(2))));
                                let _ = d;
                            } else {
                                change = Some((yw, (x - digit) * four_inv));
                            }
                        }
                    }
                }
            }
            _ => {}
        }
        let (w, val) = change?;
        set(&mut a, &mut table, w, val);
        decided[w] = true;
        for u in &uses[w] {
            queue.push_back(*u);
        }
        queue.push_back(i);
    }
    if g.eval(&a).is_empty() {
        Some(a)
    } else {
        None
    }
}

/// Run the propagation adversary in both witness orders; `claim` decides
/// whether a completed assignment contradicts the property (e.g. the output
/// witness carries another value than the specification's). Returns the
/// description of the first contradiction, confirmed with the real prover.
pub fn propagation_attack(
    g: &Gad,
    pins: &[(usize, F)],
    seed: u64,
    what: &str,
    claim: impl Fn(&[F]) -> bool,
) -> Result<Option<String>, Fail> {
    let start = g.with(pins);
    let pinned: Vec<usize> = pins.iter().map(|p| p.0).collect();
    for late in [true, false] {
        if let Some(a) = propagate(g, &start, &pinned, late) {
            if claim(&a) {
                let real = g.prove_assignment(&a, seed)?;
                return Ok(Some(format!(
                    "{what}: after deciding {} witness(es) the remaining wires can be re-solved row by row ({} order) so that every identity holds (real prover+verifier: {real:?})",
                    pins.len(),
                    if late { "latest-first" } else { "earliest-first" }
                )));
            }
        }
    }
    Ok(None)
}

/// Candidate-seeded propagation: a crafted assignment (role model) that the
/// evaluator rejects is completed by re-solving derived wires from the ACTUAL
/// rows (a role model computes helper wires by the honest formulas; a changed
/// gadget may derive them differently). `pinned` are the gadget's inputs.
pub fn complete_candidate(g: &Gad, candidate: &[F], pinned: &[usize], claim: impl Fn(&[F]) -> bool) -> Option<Vec<F>> {
    for late in [true, false] {
        if let Some(a) = propagate(g, candidate, pinned, late) {
            if claim(&a) {
                return Some(a);
            }
        }
    }
    None
}

/// Single-wire perturbation + propagation: for `count` witnesses of op `op`
/// (chosen by a deterministic function of `salt`) and a few replacement values
/// each, fix that wire and the gadget's `inputs`, re-solve the rest, and ask
/// `claim` whether a completed assignment contradicts the property. Returns
/// the number of attempts and the first contradiction.
pub fn wire_perturbation_attacks(
    g: &Gad,
    op: usize,
    inputs: &[usize],
    count: usize,
    salt: u64,
    seed: u64,
    what: &str,
    claim: impl Fn(&[F]) -> bool,
) -> Result<(u64, Option<String>), Fail> {
    let (start, end) = g.op_wits(op);
    if end <= start {
        return Ok((0, None));
    }
    let mut tried = 0u64;
    let one = F::one();
    for k in 0..count {
        let h = crate::runner::splitmix(salt ^ (k as u64).wrapping_mul(0x9E37_79B9_7F4A_7C15));
        let w = start + (h % (end - start) as u64) as usize;
        if inputs.contains(&w) {
            continue;
        }
        let cur = g.wit[w];
        let vals = [cur + one, cur - one, F::zero(), one, cur + cur, F::from(h >> 32)];
        let val = vals[((h >> 16) % vals.len() as u64) as usize];
        if val == cur {
            continue;
        }
        let mut pins: Vec<(usize, F)> = inputs.iter().map(|i| (*i, g.wit[*i])).collect();
        pins.push((w, val));
        tried += 1;
        if let Some(msg) = propagation_attack(g, &pins, seed, &format!("{what} (wire #{} of the gadget set to another value)", w - start), &claim)? {
            return Ok((tried, Some(msg)));
        }
    }
    Ok((tried, None))
}

// ------------------------------------------------------------------
// integer helpers

/// r - 1 split at bit nb: (r_high, r_low)
pub fn modulus_split(nb: u32) -> (U256, U256) {
    let m = R_MOD.sub(U256::ONE).0;
    (m.shr(nb), m.low_bits(nb))
}

/// base-4 digits of (n mod 2^w), most significant first, w even
pub fn quads_of(n: U256, w: usize) -> Vec<F> {
    let k = w / 2;
    (0..k)
        .map(|j| {
            let lo = 2 * (k - 1 - j) as u32;
            let d = (n.bit(lo) as u64) + 2 * (n.bit(lo + 1) as u64);
            F::from(d)
        })
        .collect()
}

pub fn accs_from_quads(quads: &[F]) -> Vec<F> {
    let four = F::from(4u64);
    let mut acc = F::zero();
    quads
        .iter()
        .map(|q| {
            acc = acc * four + q;
            acc
        })
        .collect()
}

/// witnesses allocated by `range_check(value, w)` when the prover decomposes
/// the integer `n` (honest: n = canonical value)
pub fn rc_vec(w: usize, n: U256) -> Vec<F> {
    if w == 0 {
        return Vec::new();
    }
    if w % 2 == 0 {
        return accs_from_quads(&quads_of(n, w));
    }
    let top = w - 1;
    let lower = n.low_bits(top as u32);
    let top_bit = F::from(n.bit(top as u32) as u64);
    let lower_f = f_of(lower);
    let mut v = vec![lower_f];
    v.extend(rc_vec(top, lower));
    v.push(top_bit);
    v.push(lower_f + top_bit * f_pow2(top as u32));
    v
}

/// like rc_vec for even w with one digit forced to an out-of-range value
pub fn rc_vec_bad_quad(w: usize, n: U256, pos: usize, digit: u64) -> Vec<F> {
    let mut q = quads_of(n, w);
    if !q.is_empty() {
        let p = pos % q.len();
        q[p] = F::from(digit);
    }
    accs_from_quads(&q)
}

#[derive(Clone, Debug, Default)]
pub struct BtsForge {
    pub inverse: Option<F>,
    pub is_top: Option<F>,
    pub guard: Option<F>,
}

/// A role model as named segments, in allocation order. When the honest
/// vector does not fit the honest witness table as a whole, `fit` looks for
/// the sub-sequence of segments that does (a gadget that no longer emits one
/// of its parts), and the same selection is applied to adversarial vectors.
pub type SegVec = Vec<(&'static str, Vec<F>)>;

/// How a fitted role model treats each segment: kept as is, dropped, or (for a
/// range-check segment) re-derived at another width that the honest table
/// actually uses.
#[derive(Clone, Debug, PartialEq, Eq)]
pub enum SegFit {
    Keep,
    Drop,
    Rewidth(usize),
}

/// Fit with range segments allowed to change width. `ranges[i]` = Some(value)
/// for segment i when it is a range-check chain of that integer.
pub fn fit_ranges(segs: &SegVec, ranges: &[Option<U256>], slice: &[F]) -> Option<Vec<SegFit>> {
    // fast path: the honest model as is
    let all: Vec<F> = segs.iter().flat_map(|(_, v)| v.iter().copied()).collect();
    if all[..] == slice[..] {
        return Some(vec![SegFit::Keep; segs.len()]);
    }
    // depth-first search over {keep, re-width, drop} per segment with memo of
    // dead (segment, position) states
    fn go(
        i: usize,
        pos: usize,
        segs: &SegVec,
        ranges: &[Option<U256>],
        slice: &[F],
        dead: &mut std::collections::HashSet<(usize, usize)>,
        out: &mut Vec<SegFit>,
        budget: &mut usize,
    ) -> bool {
        if i == segs.len() {
            return pos == slice.len();
        }
        if dead.contains(&(i, pos)) || *budget == 0 {
            return false;
        }
        *budget -= 1;
        let v = &segs[i].1;
        // keep
        if pos + v.len() <= slice.len() && slice[pos..pos + v.len()] == v[..] {
            out.push(SegFit::Keep);
            if go(i + 1, pos + v.len(), segs, ranges, slice, dead, out, budget) {
                return true;
            }
            out.pop();
        }
        // re-width a range chain (longest first)
        if let Some(val) = ranges.get(i).copied().flatten() {
            for w in (1..=256usize).rev() {
                let cand = rc_vec(w, val);
                if cand.is_empty() || cand.len() == v.len() {
                    continue;
                }
                if pos + cand.len() <= slice.len() && slice[pos..pos + cand.len()] == cand[..] {
                    out.push(SegFit::Rewidth(w));
                    if go(i + 1, pos + cand.len(), segs, ranges, slice, dead, out, budget) {
                        return true;
                    }
                    out.pop();
                }
            }
        }
        // drop
        if !v.is_empty() {
            out.push(SegFit::Drop);
            if go(i + 1, pos, segs, ranges, slice, dead, out, budget) {
                return true;
            }
            out.pop();
        }
        dead.insert((i, pos));
        false
    }
    let mut dead = std::collections::HashSet::new();
    let mut out = Vec::new();
    let mut budget = 20_000usize;
    go(0, 0, segs, ranges, slice, &mut dead, &mut out, &mut budget).then_some(out)
}

pub fn flatten_fit(segs: &SegVec, ranges: &[Option<U256>], fits: &[SegFit]) -> Vec<F> {
    let mut out = Vec::new();
    for (i, (_, v)) in segs.iter().enumerate() {
        match &fits[i] {
            SegFit::Keep => out.extend(v.iter().copied()),
            SegFit::Drop => {}
            SegFit::Rewidth(w) => out.extend(rc_vec(*w, ranges[i].unwrap_or(U256::ZERO))),
        }
    }
    out
}

/// the integers whose range chains the segments of `bts_segs` carry
pub fn bts_ranges(high: U256, low: F, nb: usize, forge: &BtsForge) -> Vec<Option<U256>> {
    let high_f = f_of(high);
    let (r_high, r_low) = modulus_split(nb as u32);
    let diff = f_of(r_high) - high_f;
    let inverse = forge.inverse.unwrap_or_else(|| diff.invert().unwrap_or(F::zero()));
    let is_top = forge.is_top.unwrap_or(F::one() - diff * inverse);
    let guard = forge.guard.unwrap_or(is_top * (f_of(r_low) - low));
    vec![None, Some(high), None, None, Some(f_int(&diff)), None, None, None, None, None, Some(f_int(&guard))]
}

pub fn truncate_ranges(n: usize, high: U256, low: U256, forge: &BtsForge) -> Vec<Option<U256>> {
    let mut v = vec![None, Some(low)];
    v.extend(bts_ranges(high, f_of(low), n, forge));
    v
}

pub fn flatten(segs: &SegVec, mask: &[bool]) -> Vec<F> {
    segs.iter()
        .zip(mask)
        .filter(|(_, m)| **m)
        .flat_map(|((_, v), _)| v.iter().copied())
        .collect()
}

/// greedy in-order selection of segments whose concatenation equals `slice`
pub fn fit(segs: &SegVec, slice: &[F]) -> Option<Vec<bool>> {
    let mut pos = 0;
    let mut mask = Vec::with_capacity(segs.len());
    for (_, v) in segs {
        if pos + v.len() <= slice.len() && slice[pos..pos + v.len()] == v[..] && !v.is_empty() {
            mask.push(true);
            pos += v.len();
        } else if v.is_empty() {
            mask.push(true);
        } else {
            mask.push(false);
        }
    }
    (pos == slice.len()).then_some(mask)
}

pub fn dropped_segments(segs: &SegVec, mask: &[bool]) -> Vec<&'static str> {
    segs.iter().zip(mask).filter(|(_, m)| !**m).map(|((n, _), _)| *n).collect()
}

/// witnesses allocated by `bind_truncation_split(input, low, nb)` for an
/// attacker-chosen split (high, low)
pub fn bts_segs(high: U256, low: F, nb: usize, forge: &BtsForge) -> SegVec {
    let hb = 255 - nb;
    let high_f = f_of(high);
    let (r_high, r_low) = modulus_split(nb as u32);
    let diff = f_of(r_high) - high_f;
    let inverse = forge
        .inverse
        .unwrap_or_else(|| diff.invert().unwrap_or(F::zero()));
    let product = diff * inverse;
    let is_top = forge.is_top.unwrap_or(F::one() - product);
    let rlml = f_of(r_low) - low;
    let guard = forge.guard.unwrap_or(is_top * rlml);
    vec![
        ("high", vec![high_f]),
        ("range(high)", rc_vec(hb, high)),
        ("recomposed", vec![f_pow2(nb as u32) * high_f + low]),
        ("diff", vec![diff]),
        ("range(diff)", rc_vec(hb, f_int(&diff))),
        ("inverse", vec![inverse]),
        ("product", vec![product]),
        ("is_top", vec![is_top]),
        ("r_low - low", vec![rlml]),
        ("guard", vec![guard]),
        ("range(guard)", rc_vec(nb, f_int(&guard))),
    ]
}

pub fn bts_vec(high: U256, low: F, nb: usize, forge: &BtsForge) -> Vec<F> {
    let s = bts_segs(high, low, nb, forge);
    let m = vec![true; s.len()];
    flatten(&s, &m)
}

/// witnesses allocated by `component_truncate::<N>(x)` for a chosen split
pub fn truncate_segs(n: usize, high: U256, low: U256, forge: &BtsForge) -> SegVec {
    let low_f = f_of(low);
    let mut v: SegVec = vec![("low", vec![low_f]), ("range(low)", rc_vec(n, low))];
    v.extend(bts_segs(high, low_f, n, forge));
    v
}

pub fn truncate_vec(n: usize, high: U256, low: U256, forge: &BtsForge) -> Vec<F> {
    let s = truncate_segs(n, high, low, forge);
    let m = vec![true; s.len()];
    flatten(&s, &m)
}

/// honest split of a canonical value at bit n
pub fn honest_split(x: &F, n: usize) -> (U256, U256) {
    let u = f_int(x);
    (u.shr(n as u32), u.low_bits(n as u32))
}

/// split of x + k*r (as an integer) at bit n, if it fits 256 bits
pub fn alias_split(x: &F, k: u32, n: usize) -> Option<(U256, U256)> {
    let mut u = f_int(x);
    for _ in 0..k {
        let (s, carry) = u.add(R_MOD);
        if carry {
            return None;
        }
        u = s;
    }
    Some((u.shr(n as u32), u.low_bits(n as u32)))
}

pub struct LogicChoice {
    pub a_quads: Vec<F>,
    pub b_quads: Vec<F>,
    /// None: honest product / honest result of the op
    pub prods: Option<Vec<F>>,
    pub out_quads: Option<Vec<F>>,
    pub a_split_high: U256,
    pub b_split_high: U256,
    pub forge_a: BtsForge,
    pub forge_b: BtsForge,
}

fn quad_op(a: &F, b: &F, xor: bool) -> F {
    let x = a.to_bytes()[0];
    let y = b.to_bytes()[0];
    F::from(if xor { x ^ y } else { x & y } as u64)
}

/// witnesses allocated by `append_logic_component::<P>`
pub fn logic_segs(pairs: usize, xor: bool, ch: &LogicChoice) -> SegVec {
    let four = F::from(4u64);
    let mut rows = Vec::new();
    let (mut la, mut ra, mut oa) = (F::zero(), F::zero(), F::zero());
    for i in 0..pairs {
        let qa = ch.a_quads[i];
        let qb = ch.b_quads[i];
        let prod = ch.prods.as_ref().map(|p| p[i]).unwrap_or(qa * qb);
        let qd = ch
            .out_quads
            .as_ref()
            .map(|p| p[i])
            .unwrap_or_else(|| quad_op(&qa, &qb, xor));
        la = la * four + qa;
        ra = ra * four + qb;
        oa = oa * four + qd;
        rows.extend([la, ra, prod, oa]);
    }
    let mut v: SegVec = vec![("logic rows", rows)];
    if pairs > 0 {
        v.extend(bts_segs(ch.a_split_high, la, 2 * pairs, &ch.forge_a));
        v.extend(bts_segs(ch.b_split_high, ra, 2 * pairs, &ch.forge_b));
    }
    v
}

/// integers of the range chains inside `logic_segs`
pub fn logic_ranges(pairs: usize, ch: &LogicChoice) -> Vec<Option<U256>> {
    let mut v: Vec<Option<U256>> = vec![None];
    if pairs > 0 {
        let four = F::from(4u64);
        let (mut la, mut ra) = (F::zero(), F::zero());
        for i in 0..pairs {
            la = la * four + ch.a_quads[i];
            ra = ra * four + ch.b_quads[i];
        }
        v.extend(bts_ranges(ch.a_split_high, la, 2 * pairs, &ch.forge_a));
        v.extend(bts_ranges(ch.b_split_high, ra, 2 * pairs, &ch.forge_b));
    }
    v
}

pub fn logic_vec(pairs: usize, xor: bool, ch: &LogicChoice) -> Vec<F> {
    let s = logic_segs(pairs, xor, ch);
    let m = vec![true; s.len()];
    flatten(&s, &m)
}

pub fn honest_logic_choice(a: &F, b: &F, pairs: usize) -> LogicChoice {
    let w = 2 * pairs;
    LogicChoice {
        a_quads: quads_of(f_int(a), w),
        b_quads: quads_of(f_int(b), w),
        prods: None,
        out_quads: None,
        a_split_high: f_int(a).shr(w as u32),
        b_split_high: f_int(b).shr(w as u32),
        forge_a: BtsForge::default(),
        forge_b: BtsForge::default(),
    }
}

/// witnesses allocated by `component_decomposition::<N>` for chosen bits
pub fn decomp_vec(bits: &[F]) -> Vec<F> {
    let mut v = Vec::with_capacity(bits.len() * 2);
    let mut acc = F::zero();
    for (i, b) in bits.iter().enumerate() {
        acc = f_pow2(i as u32) * b + acc;
        v.push(*b);
        v.push(acc);
    }
    v
}

pub fn bits_of(n: U256, len: usize) -> Vec<F> {
    (0..len)
        .map(|i| F::from(n.bit(i as u32) as u64))
        .collect()
}

/// witnesses allocated by `add_point_gates(p1, p2)`: [x1*y2, x3, y3]
pub fn add_vec(p1: &Pt, p2: &Pt) -> Vec<F> {
    let s = curve::add(p1, p2).unwrap_or(curve::identity());
    vec![p1.0 * p2.1, s.0, s.1]
}
