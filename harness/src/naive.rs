//! O(n^2) textbook definitions used as oracles (never the crate's kernels).

use dusk_bls12_381::{GENERATOR, ROOT_OF_UNITY, TWO_ADACITY};

use crate::fe::F;

/// primitive 2^log_n-th root of unity, from the field's 2-adic root
pub fn omega(log_n: u32) -> F {
    assert!(log_n <= TWO_ADACITY);
    let mut w = ROOT_OF_UNITY;
    for _ in log_n..TWO_ADACITY {
        w = w.square();
    }
    w
}

pub fn coset_gen() -> F {
    GENERATOR
}

pub fn pow(b: F, mut e: u64) -> F {
    let mut r = F::one();
    let mut x = b;
    while e > 0 {
        if e & 1 == 1 {
            r *= x;
        }
        x = x.square();
        e >>= 1;
    }
    r
}

pub fn horner(coeffs: &[F], x: &F) -> F {
    let mut acc = F::zero();
    for c in coeffs.iter().rev() {
        acc = acc * x + c;
    }
    acc
}

/// direct evaluation of the polynomial with these coefficients on
/// shift * {w^0, .., w^(n-1)}
pub fn dft(coeffs: &[F], log_n: u32, shift: F) -> Vec<F> {
    let n = 1usize << log_n;
    let w = omega(log_n);
    let mut x = shift;
    let mut out = Vec::with_capacity(n);
    for _ in 0..n {
        out.push(horner(coeffs, &x));
        x *= w;
    }
    out
}

/// the unique polynomial of degree < n taking values `vals` (padded with
/// zeros to n) on shift * {w^i}: inverse DFT by definition
pub fn idft(vals: &[F], log_n: u32, shift: F) -> Vec<F> {
    let n = 1usize << log_n;
    let w_inv = omega(log_n).invert().unwrap();
    let n_inv = F::from(n as u64).invert().unwrap();
    let shift_inv = shift.invert().unwrap();
    let mut out = Vec::with_capacity(n);
    let mut wk = F::one(); // w^-k
    let mut sk = F::one(); // shift^-k
    for _k in 0..n {
        // c_k = shift^-k / n * sum_j v_j w^(-jk)
        let mut acc = F::zero();
        let mut x = F::one();
        for j in 0..n {
            if j < vals.len() {
                acc += vals[j] * x;
            }
            x *= wk;
        }
        out.push(acc * n_inv * sk);
        wk *= w_inv;
        sk *= shift_inv;
    }
    out
}

pub fn trim(mut v: Vec<F>) -> Vec<F> {
    while v.last().is_some_and(|c| *c == F::zero()) {
        v.pop();
    }
    v
}

pub fn poly_add(a: &[F], b: &[F]) -> Vec<F> {
    let n = a.len().max(b.len());
    let mut r = vec![F::zero(); n];
    for (i, x) in a.iter().enumerate() {
        r[i] += x;
    }
    for (i, x) in b.iter().enumerate() {
        r[i] += x;
    }
    trim(r)
}

pub fn poly_sub(a: &[F], b: &[F]) -> Vec<F> {
    let n = a.len().max(b.len());
    let mut r = vec![F::zero(); n];
    for (i, x) in a.iter().enumerate() {
        r[i] += x;
    }
    for (i, x) in b.iter().enumerate() {
        r[i] -= x;
    }
    trim(r)
}

pub fn poly_mul(a: &[F], b: &[F]) -> Vec<F> {
    if a.is_empty() || b.is_empty() {
        return Vec::new();
    }
    let mut r = vec![F::zero(); a.len() + b.len() - 1];
    for (i, x) in a.iter().enumerate() {
        for (j, y) in b.iter().enumerate() {
            r[i + j] += x * y;
        }
    }
    trim(r)
}

pub fn poly_scale(a: &[F], s: &F) -> Vec<F> {
    trim(a.iter().map(|x| x * s).collect())
}

/// long division of a by (X - z): (quotient, remainder)
pub fn div_linear(a: &[F], z: &F) -> (Vec<F>, F) {
    let a = trim(a.to_vec());
    if a.is_empty() {
        return (Vec::new(), F::zero());
    }
    let mut q = vec![F::zero(); a.len() - 1];
    let mut carry = F::zero();
    for i in (0..a.len()).rev() {
        let t = a[i] + carry;
        if i == 0 {
            return (trim(q), t);
        }
        q[i - 1] = t;
        carry = t * z;
    }
    unreachable!()
}

/// Lagrange basis values L_i(tau) on {w^i} from the product definition
pub fn lagrange_all(log_n: u32, tau: &F) -> Vec<F> {
    let n = 1usize << log_n;
    let w = omega(log_n);
    let pts: Vec<F> = {
        let mut v = Vec::with_capacity(n);
        let mut x = F::one();
        for _ in 0..n {
            v.push(x);
            x *= w;
        }
        v
    };
    let mut out = Vec::with_capacity(n);
    for i in 0..n {
        let mut num = F::one();
        let mut den = F::one();
        for j in 0..n {
            if j != i {
                num *= tau - pts[j];
                den *= pts[i] - pts[j];
            }
        }
        out.push(num * den.invert().unwrap());
    }
    out
}

/// value at `tau` of the interpolant of (w^i, evals[i]) (missing = 0), by
/// interpolation then evaluation
pub fn interp_eval(evals: &[F], log_n: u32, tau: &F) -> F {
    let c = idft(evals, log_n, F::one());
    horner(&c, tau)
}
