//! Field-element helpers independent of the crate under test: 256-bit
//! integer arithmetic, canonical conversion, serde as hex, proptest
//! strategies with boundary classes.

use dusk_bls12_381::BlsScalar;
use proptest::prelude::*;
use serde::{Deserialize, Deserializer, Serialize, Serializer};

pub type F = BlsScalar;

/// BLS12-381 scalar field modulus (little-endian limbs)
pub const R_MOD: U256 = U256([
    0xffffffff00000001,
    0x53bda402fffe5bfe,
    0x3339d80809a1d805,
    0x73eda753299d7d48,
]);
/// JubJub prime subgroup order
pub const RJ_MOD: U256 = U256([
    0xd0970e5ed6f72cb7,
    0xa6682093ccc81082,
    0x06673b0101343b00,
    0x0e7db4ea6533afa9,
]);

#[derive(Clone, Copy, PartialEq, Eq, Debug, Hash)]
pub struct U256(pub [u64; 4]);

impl U256 {
    pub const ZERO: U256 = U256([0; 4]);
    pub const ONE: U256 = U256([1, 0, 0, 0]);
    pub const MAX: U256 = U256([u64::MAX; 4]);

    pub fn from_u64(x: u64) -> Self {
        U256([x, 0, 0, 0])
    }
    pub fn pow2(k: u32) -> Self {
        assert!(k < 256);
        let mut l = [0u64; 4];
        l[(k / 64) as usize] = 1u64 << (k % 64);
        U256(l)
    }
    /// (sum mod 2^256, carry)
    pub fn add(self, o: U256) -> (U256, bool) {
        let mut r = [0u64; 4];
        let mut c = 0u128;
        for i in 0..4 {
            let s = self.0[i] as u128 + o.0[i] as u128 + c;
            r[i] = s as u64;
            c = s >> 64;
        }
        (U256(r), c != 0)
    }
    /// (difference mod 2^256, borrow)
    pub fn sub(self, o: U256) -> (U256, bool) {
        let mut r = [0u64; 4];
        let mut b = 0i128;
        for i in 0..4 {
            let d = self.0[i] as i128 - o.0[i] as i128 - b;
            if d < 0 {
                r[i] = (d + (1i128 << 64)) as u64;
                b = 1;
            } else {
                r[i] = d as u64;
                b = 0;
            }
        }
        (U256(r), b != 0)
    }
    pub fn lt(self, o: U256) -> bool {
        for i in (0..4).rev() {
            if self.0[i] != o.0[i] {
                return self.0[i] < o.0[i];
            }
        }
        false
    }
    pub fn le(self, o: U256) -> bool {
        !o.lt(self)
    }
    pub fn bit(self, i: u32) -> bool {
        if i >= 256 {
            return false;
        }
        (self.0[(i / 64) as usize] >> (i % 64)) & 1 == 1
    }
    pub fn set_bit(&mut self, i: u32, v: bool) {
        let l = (i / 64) as usize;
        let m = 1u64 << (i % 64);
        if v {
            self.0[l] |= m;
        } else {
            self.0[l] &= !m;
        }
    }
    /// low `n` bits (n <= 256)
    pub fn low_bits(self, n: u32) -> U256 {
        if n >= 256 {
            return self;
        }
        let mut r = [0u64; 4];
        for i in 0..4 {
            let lo = (i as u32) * 64;
            if n >= lo + 64 {
                r[i] = self.0[i];
            } else if n > lo {
                r[i] = self.0[i] & ((1u64 << (n - lo)) - 1);
            }
        }
        U256(r)
    }
    pub fn shr(self, n: u32) -> U256 {
        if n >= 256 {
            return U256::ZERO;
        }
        let mut r = U256::ZERO;
        for i in 0..(256 - n) {
            if self.bit(i + n) {
                r.set_bit(i, true);
            }
        }
        r
    }
    /// fits in n bits
    pub fn fits(self, n: u32) -> bool {
        n >= 256 || self.shr(n) == U256::ZERO
    }
    pub fn bit_len(self) -> u32 {
        for i in (0..256).rev() {
            if self.bit(i) {
                return i + 1;
            }
        }
        0
    }
    pub fn and(self, o: U256) -> U256 {
        U256([
            self.0[0] & o.0[0],
            self.0[1] & o.0[1],
            self.0[2] & o.0[2],
            self.0[3] & o.0[3],
        ])
    }
    pub fn xor(self, o: U256) -> U256 {
        U256([
            self.0[0] ^ o.0[0],
            self.0[1] ^ o.0[1],
            self.0[2] ^ o.0[2],
            self.0[3] ^ o.0[3],
        ])
    }
    pub fn to_le_bytes(self) -> [u8; 32] {
        let mut b = [0u8; 32];
        for i in 0..4 {
            b[i * 8..(i + 1) * 8].copy_from_slice(&self.0[i].to_le_bytes());
        }
        b
    }
    pub fn from_le_bytes(b: &[u8; 32]) -> Self {
        let mut l = [0u64; 4];
        for i in 0..4 {
            l[i] = u64::from_le_bytes(b[i * 8..(i + 1) * 8].try_into().unwrap());
        }
        U256(l)
    }
    /// reduce mod the BLS scalar modulus (value < 2^256 < 3r... actually
    /// 2^256 / r < 3, so at most 2 subtractions)
    pub fn reduce_r(self) -> U256 {
        let mut v = self;
        while !v.lt(R_MOD) {
            v = v.sub(R_MOD).0;
        }
        v
    }
}

/// canonical integer value of a field element
pub fn f_int(f: &F) -> U256 {
    U256::from_le_bytes(&f.to_bytes())
}

/// field element of an integer (reduced mod r)
pub fn f_of(u: U256) -> F {
    let v = u.reduce_r();
    // from_bytes of a canonical encoding cannot fail
    Option::<F>::from(F::from_bytes(&v.to_le_bytes())).expect("canonical")
}

pub fn f_u64(x: u64) -> F {
    F::from(x)
}

pub fn f_pow2(k: u32) -> F {
    f_of(U256::pow2(k))
}

pub fn rj_f() -> F {
    f_of(RJ_MOD)
}

pub fn f_hex(f: &F) -> String {
    hex::encode(f.to_bytes())
}

/// serde/Debug-friendly field element
#[derive(Clone, Copy, PartialEq, Eq, Hash)]
pub struct Fe(pub F);

impl std::fmt::Debug for Fe {
    fn fmt(&self, f: &mut std::fmt::Formatter<'_>) -> std::fmt::Result {
        write!(f, "Fe({})", fe_short(&self.0))
    }
}

pub fn fe_short(f: &F) -> String {
    let u = f_int(f);
    if u.0[1] == 0 && u.0[2] == 0 && u.0[3] == 0 {
        return format!("{}", u.0[0]);
    }
    let n = f_int(&-*f);
    if n.0[1] == 0 && n.0[2] == 0 && n.0[3] == 0 {
        return format!("-{}", n.0[0]);
    }
    format!("0x{}", hex::encode(f.to_bytes()))
}

impl Serialize for Fe {
    fn serialize<S: Serializer>(&self, s: S) -> Result<S::Ok, S::Error> {
        s.serialize_str(&hex::encode(self.0.to_bytes()))
    }
}

impl<'de> Deserialize<'de> for Fe {
    fn deserialize<D: Deserializer<'de>>(d: D) -> Result<Self, D::Error> {
        let s = String::deserialize(d)?;
        let b = hex::decode(&s).map_err(serde::de::Error::custom)?;
        let a: [u8; 32] = b
            .try_into()
            .map_err(|_| serde::de::Error::custom("need 32 bytes"))?;
        Option::<F>::from(F::from_bytes(&a))
            .map(Fe)
            .ok_or_else(|| serde::de::Error::custom("non-canonical scalar"))
    }
}

impl From<F> for Fe {
    fn from(f: F) -> Self {
        Fe(f)
    }
}

/// uniformly random element from 4 limbs (reduced)
pub fn f_from_limbs(l: [u64; 4]) -> F {
    // 2^256 mod r bias is irrelevant here
    let mut wide = [0u8; 64];
    for i in 0..4 {
        wide[i * 8..(i + 1) * 8].copy_from_slice(&l[i].to_le_bytes());
    }
    F::from_bytes_wide(&wide)
}

/// random field element (shrinks towards 0)
pub fn fe_random() -> impl Strategy<Value = Fe> {
    any::<[u64; 4]>().prop_map(|l| Fe(f_from_limbs(l)))
}

/// field elements with the boundary classes the properties name
pub fn fe_any() -> BoxedStrategy<Fe> {
    prop_oneof![
        3 => Just(Fe(F::zero())),
        3 => Just(Fe(F::one())),
        2 => Just(Fe(-F::one())),
        2 => Just(Fe(F::from(2u64))),
        3 => (0u32..=255).prop_map(|k| Fe(f_pow2(k))),
        3 => (0u32..=255).prop_map(|k| Fe(f_pow2(k) - F::one())),
        2 => (0u32..=255).prop_map(|k| Fe(f_pow2(k) + F::one())),
        1 => Just(Fe(rj_f())),
        1 => Just(Fe(rj_f() - F::one())),
        1 => Just(Fe(rj_f() + F::one())),
        3 => any::<u64>().prop_map(|x| Fe(F::from(x))),
        2 => (0u64..16).prop_map(|x| Fe(F::from(x))),
        2 => (1u64..16).prop_map(|x| Fe(-F::from(x))),
        // small multiples of 2^-m (m = 1..8): elements near r/2^m whose double,
        // quadruple, ... wraps around the modulus to a small integer
        2 => (1u64..64, 1u32..9).prop_map(|(s, m)| {
            Fe(F::from(s) * f_pow2(m).invert().unwrap())
        }),
        // r/2 +- small, r/3-ish (inverse of 3 times small)
        1 => (0u64..8).prop_map(|j| {
            Fe(F::from(2u64).invert().unwrap() + F::from(j))
        }),
        1 => (1u64..8).prop_map(|j| {
            Fe(F::from(3u64).invert().unwrap() * F::from(j))
        }),
        8 => fe_random(),
    ]
    .boxed()
}

/// non-zero element
pub fn fe_nonzero() -> BoxedStrategy<Fe> {
    fe_any()
        .prop_map(|f| if f.0 == F::zero() { Fe(F::from(5u64)) } else { f })
        .boxed()
}

/// deterministic pseudo-random field elements from a seed (for large vectors
/// that should not be part of the shrinkable case)
pub fn f_stream(seed: u64, n: usize) -> Vec<F> {
    use rand_chacha::ChaCha8Rng;
    use rand_core::{RngCore, SeedableRng};
    let mut rng = ChaCha8Rng::seed_from_u64(seed);
    (0..n)
        .map(|_| {
            let mut w = [0u8; 64];
            rng.fill_bytes(&mut w);
            F::from_bytes_wide(&w)
        })
        .collect()
}

/// monotone index map: i in 0..2^16 -> 0..len
pub fn pick(i: u16, len: usize) -> usize {
    if len == 0 {
        0
    } else {
        ((i as usize) * len) >> 16
    }
}
