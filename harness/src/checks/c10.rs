//! C10 — bitwise AND / XOR components return exactly the truncated result.

use proptest::prelude::*;
use serde::{Deserialize, Serialize};
use serde_json::json;

use crate::ensure;
use crate::fe::{f_int, f_of, fe_random, fe_short, Fe, F, U256};
use crate::gadget::{self, BtsForge, Gad, LogicChoice};
use crate::prog::Op;
use crate::runner::{no_panic, Ctx, Fail, PResult, Prop, PropDyn, Tier};
use crate::spec;

#[derive(Debug, Clone, Serialize, Deserialize)]
pub struct Case {
    pub xor: bool,
    pub pairs: u8,
    pub aclass: u8,
    pub bclass: u8,
    pub ra: Fe,
    pub rb: Fe,
    pub rc: Fe,
    pub pos: u16,
    pub prove: bool,
    pub seed: u64,
}

fn value(class: u8, r: &F, other: &F, bits: u32) -> F {
    match class % 7 {
        0 => F::zero(),
        1 => -F::one(),
        // all ones below the width
        2 => f_of(U256::MAX.low_bits(bits.min(254))),
        // equal to `other` below the width, different above
        3 => {
            let lo = f_int(other).low_bits(bits);
            let hi = f_int(r).shr(bits);
            let mut u = lo;
            for i in 0..(254u32.saturating_sub(bits)) {
                if hi.bit(i) {
                    u.set_bit(bits + i, true);
                }
            }
            f_of(u)
        }
        4 => F::one(),
        _ => *r,
    }
}

fn case_strategy(_t: Tier) -> BoxedStrategy<Case> {
    (
        any::<bool>(),
        prop_oneof![3 => 0u8..=127, 1 => 0u8..=3, 1 => 120u8..=127],
        0u8..7,
        0u8..7,
        fe_random(),
        fe_random(),
        fe_random(),
        any::<u16>(),
        proptest::bool::weighted(0.04),
        any::<u64>(),
    )
        .prop_map(|(xor, pairs, aclass, bclass, ra, rb, rc, pos, prove, seed)| Case {
            xor,
            pairs,
            aclass,
            bclass,
            ra,
            rb,
            rc,
            pos,
            prove,
            seed,
        })
        .boxed()
}

fn check(ctx: &Ctx, c: &Case) -> PResult {
    let pairs = (c.pairs as usize).min(127);
    let bits = 2 * pairs as u32;
    let b = value(c.bclass, &c.rb.0, &c.ra.0, bits);
    let a = value(c.aclass, &c.ra.0, &b, bits);
    let ops = vec![
        Op::Wit(Fe(a)),
        Op::Wit(Fe(b)),
        Op::Logic { xor: c.xor, pairs: pairs as u8, a: 32768, b: 49152 },
    ];
    let g = no_panic("logic-build-panic", || Gad::build(ops, false))?
        .map_err(|e| Fail::new("logic-build-error", format!("{e:?}")))?;
    let cls = format!(
        "{} pairs={}",
        if c.xor { "xor" } else { "and" },
        match pairs {
            0 => "0",
            1..=3 => "1-3",
            4..=119 => "4-119",
            _ => "120-127",
        }
    );
    ctx.eval(&cls);
    let want = if c.xor {
        spec::bit_xor(&a, &b, bits)
    } else {
        spec::bit_and(&a, &b, bits)
    };
    let ret_w = g.handle_wit(g.trace.wits.len() - 1);
    ensure!(
        g.wit[ret_w] == want,
        "logic-value",
        "{}::<{pairs}>({}, {}) returned {} instead of {}",
        if c.xor { "append_logic_xor" } else { "append_logic_and" },
        fe_short(&a),
        fe_short(&b),
        fe_short(&g.wit[ret_w]),
        fe_short(&want)
    );
    let unsat = g.honest_unsat();
    ensure!(
        unsat.is_empty(),
        "logic-unsatisfiable",
        "logic component with {pairs} pairs on ({}, {}) is not satisfiable: {:?}",
        fe_short(&a),
        fe_short(&b),
        unsat.first()
    );
    if c.prove {
        gadget::cross_check(&g, &g.wit, c.seed, "honest logic circuit")?;
        ctx.label("cross-checked with the real prover");
    }
    if pairs == 0 {
        ctx.nontrivial_json(&("l0", c.xor, c.aclass, c.bclass));
        return Ok(());
    }
    // role-free adversary: the gadget's own wires for other inputs, with the
    // input witnesses put back
    let in_a = g.handle_wit(2);
    let in_b = g.handle_wit(3);
    for (name, oa, ob) in [("other a", c.rc.0, b), ("other b", a, c.rc.0), ("other a and b", c.rc.0, c.ra.0 + c.rb.0)] {
        let other = Gad::build(
            vec![
                Op::Wit(Fe(oa)),
                Op::Wit(Fe(ob)),
                Op::Logic { xor: c.xor, pairs: pairs as u8, a: 32768, b: 49152 },
            ],
            false,
        )
        .map_err(|e| Fail::new("logic-build-error", format!("{e:?}")))?;
        if let Some(asg) = gadget::transplant(&g, &other, &[in_a, in_b]) {
            ctx.add_evals(1);
            ctx.label(&format!("adversary: transplant ({name})"));
            if g.eval(&asg).is_empty() && asg[ret_w] != want {
                let real = g.prove_assignment(&asg, c.seed)?;
                return Err(Fail::new(
                    "logic-result-decoupled-from-input",
                    format!(
                        "{} with {pairs} pairs on ({}, {}): the wires computed for {name} satisfy every row, returned value {} != {} (real prover+verifier: {real:?})",
                        if c.xor { "xor" } else { "and" },
                        fe_short(&a), fe_short(&b), fe_short(&asg[ret_w]), fe_short(&want)
                    ),
                ));
            }
        } else {
            return Err(Fail::new("logic-shape-depends-on-values", "two builds of the same logic component differ in layout"));
        }
    }
    // model-free adversary: the result (or one internal wire) decided by the
    // prover, inputs kept, every other wire re-solved row by row
    {
        for (name, forged) in [("result + 1", want + F::one()), ("result of the other operation", if c.xor { spec::bit_and(&a, &b, bits) } else { spec::bit_xor(&a, &b, bits) }), ("untruncated result", if c.xor { spec::bit_xor(&a, &b, 256) } else { spec::bit_and(&a, &b, 256) })] {
            if forged == want {
                continue;
            }
            ctx.add_evals(1);
            ctx.label("adversary: propagation from a forged result");
            let pins = [(in_a, a), (in_b, b), (ret_w, forged)];
            if let Some(msg) = gadget::propagation_attack(&g, &pins, c.seed, &format!("{} with {pairs} pairs on ({}, {}), returned witness forced to the {name}", if c.xor { "xor" } else { "and" }, fe_short(&a), fe_short(&b)), |_| true)? {
                return Err(Fail::new("logic-resolved-wires-accepted", msg));
            }
        }
        let (n, hit) = gadget::wire_perturbation_attacks(&g, 2, &[in_a, in_b], 6, c.seed ^ c.pos as u64, c.seed, &format!("{} with {pairs} pairs on ({}, {})", if c.xor { "xor" } else { "and" }, fe_short(&a), fe_short(&b)), |asg| asg[ret_w] != want)?;
        ctx.add_evals(n);
        ctx.label_n("adversary: single-wire perturbation + propagation", n);
        if let Some(msg) = hit {
            return Err(Fail::new("logic-resolved-wires-accepted", msg));
        }
    }
    let honest = gadget::honest_logic_choice(&a, &b, pairs);
    let honest_segs = gadget::logic_segs(pairs, c.xor, &honest);
    let honest_ranges = gadget::logic_ranges(pairs, &honest);
    let (ws, we) = g.op_wits(2);
    let Some(fits) = gadget::fit_ranges(&honest_segs, &honest_ranges, &g.wit[ws..we]) else {
        ctx.label("role model mismatch: adversarial tier skipped");
        return Ok(());
    };
    if fits.iter().any(|f| *f != gadget::SegFit::Keep) {
        ctx.label("role model fitted with dropped / re-widthed segments");
    }
    let honest_vec = gadget::flatten_fit(&honest_segs, &honest_ranges, &fits);
    let w = 2 * pairs;
    let mk = |a_int: U256, b_int: U256, fa: BtsForge, fb: BtsForge, prods: Option<Vec<F>>, outs: Option<Vec<F>>| LogicChoice {
        a_quads: gadget::quads_of(a_int, w),
        b_quads: gadget::quads_of(b_int, w),
        prods,
        out_quads: outs,
        a_split_high: a_int.shr(w as u32),
        b_split_high: b_int.shr(w as u32),
        forge_a: fa,
        forge_b: fb,
    };
    let ai = f_int(&a);
    let bi = f_int(&b);
    let mut cands: Vec<(String, LogicChoice)> = Vec::new();
    // modulus aliases of either input
    let forges = [
        ("", BtsForge::default()),
        (" is_top=0", BtsForge { is_top: Some(F::zero()), ..Default::default() }),
        (" guard=0", BtsForge { guard: Some(F::zero()), ..Default::default() }),
        (" is_top=0 guard=0", BtsForge { is_top: Some(F::zero()), guard: Some(F::zero()), inverse: None }),
    ];
    for (fname, f) in &forges {
        if let Some(s) = ai.add(crate::fe::R_MOD).1.then_some(()).map_or(Some(ai.add(crate::fe::R_MOD).0), |_| None) {
            cands.push((format!("accumulators of a+r{fname}"), mk(s, bi, f.clone(), BtsForge::default(), None, None)));
        }
        if let Some(s) = bi.add(crate::fe::R_MOD).1.then_some(()).map_or(Some(bi.add(crate::fe::R_MOD).0), |_| None) {
            cands.push((format!("accumulators of b+r{fname}"), mk(ai, s, BtsForge::default(), f.clone(), None, None)));
        }
    }
    // accumulators of other inputs, honest binding of the real inputs' high part
    let oi = f_int(&c.rc.0);
    {
        let mut ch = mk(oi, bi, BtsForge::default(), BtsForge::default(), None, None);
        ch.a_split_high = ai.shr(w as u32);
        cands.push(("accumulators of another a".into(), ch));
        let mut ch = mk(ai, oi, BtsForge::default(), BtsForge::default(), None, None);
        ch.b_split_high = bi.shr(w as u32);
        cands.push(("accumulators of another b".into(), ch));
    }
    // wrong product wire on one quad
    {
        let q = gadget::quads_of(ai, w);
        let p = gadget::quads_of(bi, w);
        let mut prods: Vec<F> = q.iter().zip(&p).map(|(x, y)| x * y).collect();
        let i = c.pos as usize % pairs;
        prods[i] += F::one();
        cands.push(("one product wire off".into(), mk(ai, bi, BtsForge::default(), BtsForge::default(), Some(prods), None)));
    }
    // output accumulators of the other operation / one output quad changed
    {
        let q = gadget::quads_of(ai, w);
        let p = gadget::quads_of(bi, w);
        let other: Vec<F> = q
            .iter()
            .zip(&p)
            .map(|(x, y)| {
                let (x, y) = (x.to_bytes()[0], y.to_bytes()[0]);
                F::from(if c.xor { x & y } else { x ^ y } as u64)
            })
            .collect();
        cands.push(("outputs of the other operation".into(), mk(ai, bi, BtsForge::default(), BtsForge::default(), None, Some(other))));
        let mut outs: Vec<F> = q
            .iter()
            .zip(&p)
            .map(|(x, y)| {
                let (x, y) = (x.to_bytes()[0], y.to_bytes()[0]);
                F::from(if c.xor { x ^ y } else { x & y } as u64)
            })
            .collect();
        let i = c.pos as usize % pairs;
        outs[i] = F::from(((outs[i].to_bytes()[0] + 1) % 4) as u64);
        cands.push(("one output quad changed".into(), mk(ai, bi, BtsForge::default(), BtsForge::default(), None, Some(outs))));
    }
    let (start, _) = g.op_wits(2);
    let ret_idx = start + 4 * (pairs - 1) + 3;
    for (name, ch) in cands {
        let vec = gadget::flatten_fit(&gadget::logic_segs(pairs, c.xor, &ch), &gadget::logic_ranges(pairs, &ch), &fits);
        if vec.len() != honest_vec.len() {
            continue;
        }
        let asg = g.splice(&g.wit, 2, 0, &vec);
        if gadget::maybe_cross(&g, &asg, c.seed, name.len(), 60, "logic adversarial assignment")? {
            ctx.label("adversarial assignment cross-checked with the real prover");
        }
        ctx.add_evals(1);
        ctx.label(&format!("adversary: {}", name.split(' ').take(4).collect::<Vec<_>>().join(" ")));
        let rejected = !g.eval(&asg).is_empty();
        if rejected {
            // the crafted choices with every derived wire re-solved from the actual rows
            if let Some(done) = gadget::complete_candidate(&g, &asg, &[in_a, in_b], |x| x[ret_idx] != want) {
                let real = g.prove_assignment(&done, c.seed)?;
                return Err(Fail::new(
                    "logic-forged-result-accepted",
                    format!(
                        "{} with {pairs} pairs on ({}, {}): assignment '{name}' completed by re-solving the derived wires satisfies every row with returned value {} != {} (real prover+verifier: {real:?})",
                        if c.xor { "xor" } else { "and" },
                        fe_short(&a), fe_short(&b), fe_short(&done[ret_idx]), fe_short(&want)
                    ),
                ));
            }
        }
        if !rejected && asg[ret_idx] != want {
            let real = g.prove_assignment(&asg, c.seed)?;
            return Err(Fail::new(
                "logic-forged-result-accepted",
                format!(
                    "{} with {pairs} pairs on ({}, {}): assignment '{name}' satisfies every row with returned value {} != {} (real prover+verifier: {real:?})",
                    if c.xor { "xor" } else { "and" },
                    fe_short(&a), fe_short(&b), fe_short(&asg[ret_idx]), fe_short(&want)
                ),
            ));
        }
    }
    // the returned witness cannot be changed on its own
    let asg = g.with(&[(ret_w, want + F::one())]);
    ensure!(
        !g.eval(&asg).is_empty(),
        "logic-output-unconstrained",
        "returned witness of the logic component can be changed freely"
    );
    ctx.nontrivial_json(&("l", c.xor, pairs, c.aclass, c.bclass, c.ra, c.rb));
    ctx.sample(&cls, || json!({"op": if c.xor {"xor"} else {"and"}, "pairs": pairs, "a": fe_short(&a), "b": fe_short(&b), "result": fe_short(&want)}));
    Ok(())
}

fn sweep(ctx: &Ctx) {
    let rr = crate::fe::f_stream(ctx.seed ^ 0x10, 6);
    for xor in [false, true] {
        for pairs in 0u8..=127 {
            for (ac, bc) in [(5u8, 5u8), (1, 2), (3, 5)] {
                let c = Case {
                    xor,
                    pairs,
                    aclass: ac,
                    bclass: bc,
                    ra: Fe(rr[0]),
                    rb: Fe(rr[1]),
                    rc: Fe(rr[2]),
                    pos: pairs as u16 * 7,
                    prove: false,
                    seed: ctx.seed,
                };
                if let Err(f) = check(ctx, &c) {
                    ctx.violation("logic", &f, serde_json::to_value(&c).unwrap());
                    return;
                }
            }
        }
    }
    ctx.label("sweep: both operations x every pair count 0..=127 x 3 input classes");
}

pub fn props() -> Vec<(Box<dyn PropDyn>, u32, u32)> {
    vec![(Box::new(Prop::new("logic", case_strategy, check).shrink(300)), 6000, 60000)]
}

pub fn sweeps(ctx: &Ctx) {
    sweep(ctx);
}

pub fn describe(ctx: &Ctx) {
    ctx.rule("cases: operation {and, xor} x pair count 0..=127 (every count in the sweep) x inputs {0, r-1, all-ones, equal below the width and different above, 1, random}; adversarial assignments on the unchanged layout {accumulators of a+r / b+r with honest and forged is_top/guard wires, accumulators of another input, one product wire off, output accumulators of the other operation, one output quad changed, free change of the returned witness} and the model-free propagation adversary (returned witness forced to result+1 / the other operation's result / the untruncated result, or one random internal wire changed; inputs kept; all other wires re-solved row by row). Oracle: returned value = AND/XOR of the low 2*pairs bits (integer arithmetic), reference row evaluator for satisfiability, real prover on a sample and on every hit. non-trivial = every case; distinct by (op, pairs, classes, values)");
    ctx.assume("role model of the logic gadget's witness allocation is validated per case against the honest table");
}
