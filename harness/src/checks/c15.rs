//! C15 — compressed circuit descriptions compile to the identical keys, and
//! decompression is bounded by the parameters' capacity.

use std::sync::Arc;

use dusk_plonk::prelude::Compiler;
use msgpacker::{MsgPacker, Packable};
use proptest::prelude::*;
use serde::{Deserialize, Serialize};
use serde_json::json;

use crate::alloc_count::measure;
use crate::checks::c01;
use crate::ensure;
use crate::fe::{fe_any, pick, Fe, F};
use crate::prog::{self, Op, Pi, Program};
use crate::runner::{no_panic, Ctx, Fail, PResult, Prop, PropDyn, Tier};
use crate::spec::Layout;
use crate::sys::{self, Route};

// mirror of the crate's compressed description (MessagePack field order)
#[derive(Debug, Default, Clone, Copy, PartialEq, Eq, Hash, MsgPacker)]
pub struct CConstraint {
    pub polynomial: usize,
    pub a: usize,
    pub b: usize,
    pub c: usize,
    pub d: usize,
}

#[derive(Debug, Clone, PartialEq, Eq)]
pub struct CCircuit {
    pub hades_optimization: bool,
    pub public_inputs: Vec<usize>,
    pub witnesses: usize,
    pub scalars: Vec<[u8; 32]>,
    pub polynomials: Vec<[usize; 11]>,
    pub constraints: Vec<CConstraint>,
}

impl CCircuit {
    pub fn pack(&self) -> Vec<u8> {
        let mut buf = Vec::new();
        self.hades_optimization.pack(&mut buf);
        msgpacker::pack_array(&mut buf, self.public_inputs.iter());
        self.witnesses.pack(&mut buf);
        msgpacker::pack_array(&mut buf, self.scalars.iter());
        // a polynomial is a struct of 11 usize fields packed in order
        pack_len(&mut buf, self.polynomials.len());
        for p in &self.polynomials {
            for x in p {
                x.pack(&mut buf);
            }
        }
        msgpacker::pack_array(&mut buf, self.constraints.iter());
        buf
    }
    pub fn encode(&self) -> Vec<u8> {
        miniz_oxide::deflate::compress_to_vec(&self.pack(), 6)
    }
}

fn pack_len(buf: &mut Vec<u8>, len: usize) {
    if len < 16 {
        buf.push(0x90 | len as u8);
    } else if len < 65536 {
        buf.push(0xdc);
        buf.extend_from_slice(&(len as u16).to_be_bytes());
    } else {
        buf.push(0xdd);
        buf.extend_from_slice(&(len as u32).to_be_bytes());
    }
}

/// description of a layout with explicit (non-hades) scalar table
pub fn describe_layout(l: &Layout, witness_count: usize) -> CCircuit {
    let base = [F::zero(), F::one(), -F::one()];
    let mut scalars: Vec<F> = Vec::new();
    let mut polys: Vec<[usize; 11]> = Vec::new();
    let mut constraints = Vec::new();
    let idx = |s: &F, scalars: &mut Vec<F>| -> usize {
        if let Some(i) = base.iter().position(|b| b == s) {
            return i;
        }
        if let Some(i) = scalars.iter().position(|b| b == s) {
            return 3 + i;
        }
        scalars.push(*s);
        3 + scalars.len() - 1
    };
    for r in &l.rows {
        let mut p = [0usize; 11];
        for k in 0..11 {
            p[k] = idx(&r.sel[k], &mut scalars);
        }
        let pi = match polys.iter().position(|q| *q == p) {
            Some(i) => i,
            None => {
                polys.push(p);
                polys.len() - 1
            }
        };
        constraints.push(CConstraint { polynomial: pi, a: r.w[0], b: r.w[1], c: r.w[2], d: r.w[3] });
    }
    CCircuit {
        hades_optimization: false,
        public_inputs: l.pi_rows.clone(),
        witnesses: witness_count,
        scalars: scalars.iter().map(|s| s.to_bytes()).collect(),
        polynomials: polys,
        constraints,
    }
}

#[derive(Debug, Clone, Serialize, Deserialize)]
pub struct Case {
    pub ops: Vec<Op>,
    pub target: Option<(u32, i8)>,
    pub label: Vec<u8>,
    /// capacity offset from the minimal one, -8..=8
    pub cap_delta: i8,
    /// hand-built description variant: 0 none, 1 sparse witness labels,
    /// 2 reversed scalar/polynomial tables
    pub rebuilt: u8,
    pub hostile: u8,
    pub h1: u32,
    pub seed: u64,
}

fn builtin_table() -> &'static Vec<F> {
    static T: std::sync::OnceLock<Vec<F>> = std::sync::OnceLock::new();
    T.get_or_init(dusk_plonk::verif::compress_builtin_scalars)
}

fn emphasised_ops() -> BoxedStrategy<Vec<Op>> {
    // unused witnesses, allocation order != first-use order, repeated and
    // distinct selector tuples, selectors 0/+-1 and entries of the built-in constant table, zero-valued public inputs,
    // public inputs on the first and last row
    // selectors equal to entries of the codec's built-in constant table
    let table_coeff = prop_oneof![
        3 => prog::coeff(),
        2 => any::<u16>().prop_map(|i| {
            let t = builtin_table();
            Fe(t[pick(i, t.len())])
        }),
    ];
    let gate = (proptest::array::uniform5(table_coeff), [any::<u16>(), any::<u16>(), any::<u16>(), any::<u16>()], prog::pi_strategy())
        .prop_map(|(q, w, pi)| Op::Gate { q, qc: Fe(F::zero()), w, pi });
    let op = prop_oneof![
        5 => fe_any().prop_map(Op::Wit),
        6 => gate,
        1 => Just(Op::Public(Fe(F::zero()))),
        2 => fe_any().prop_map(Op::Public),
        2 => (0u16..4).prop_map(Op::Pad),
        2 => (0u16..6).prop_map(Op::PadDistinct),
        6 => prog::light_op(),
        1 => prog::medium_op(),
    ];
    (fe_any(), proptest::collection::vec(op, 0..16), fe_any())
        .prop_map(|(first, mut mid, last)| {
            let mut v = vec![Op::Public(first)];
            v.append(&mut mid);
            v.push(Op::Public(last));
            v
        })
        .boxed()
}

fn case_strategy(t: Tier) -> BoxedStrategy<Case> {
    let max_k = t.pick(7u32, 9u32);
    (
        emphasised_ops(),
        proptest::option::weighted(0.6, (3u32..=max_k, prop_oneof![Just(-6i8), Just(-7i8), Just(-5i8), -8i8..=8])),
        proptest::collection::vec(any::<u8>(), 0..8),
        -8i8..=8,
        0u8..5,
        0u8..14,
        any::<u32>(),
        any::<u64>(),
    )
        .prop_map(|(ops, target, label, cap_delta, rebuilt, hostile, h1, seed)| Case { ops, target, label, cap_delta, rebuilt, hostile, h1, seed })
        .boxed()
}

fn check(ctx: &Ctx, c: &Case) -> PResult {
    let (program, n) = c01::padded_program(&c.ops, c.target, 40000 + (c.seed & 1) as u16)?;
    let minimal = sys::min_capacity(n);
    let cap = (minimal as i64 + c.cap_delta as i64).max(1) as usize;
    let pp = sys::pp(cap);
    let cls = format!(
        "capacity {} {}",
        if cap < minimal { "below-minimal" } else if cap == minimal { "minimal" } else { "above-minimal" },
        c01::size_class(n)
    );
    ctx.eval(&cls);
    let direct = no_panic("compile-panic", || sys::compile(&pp, &c.label, &program, Route::Instance))?;
    let bytes = sys::compress(&program).map_err(|e| Fail::new("compress-error", format!("{e:?}")))?;
    let (comp, peak) = measure(|| no_panic("compile-compressed-panic", || Compiler::compile_with_compressed(&pp, &c.label, &bytes)));
    let comp = comp?;
    match (&direct, &comp) {
        (Ok((p1, v1)), Ok((p2, v2))) => {
            ensure!(cap >= minimal, "undersized-capacity-accepted", "capacity {cap} < minimal {minimal} compiled {n} constraints");
            ensure!(p1.to_bytes() == p2.to_bytes(), "routes-differ-prover", "prover bytes differ between direct and compressed compilation ({n} constraints)");
            ensure!(v1.to_bytes() == v2.to_bytes(), "routes-differ-verifier", "verifier bytes differ between direct and compressed compilation ({n} constraints)");
        }
        (Err(_), Err(_)) => {
            ensure!(cap < minimal, "sufficient-capacity-refused", "capacity {cap} >= minimal {minimal} refused on both routes for {n} constraints");
        }
        (a, b) => {
            return Err(Fail::new(
                "routes-disagree-on-capacity",
                format!("capacity {cap} ({n} constraints, minimal {minimal}): direct {:?}, compressed {:?}", a.as_ref().map(|_| ()), b.as_ref().map(|_| ())),
            ))
        }
    }
    // legitimate maximal circuit for this SRS: allocation reference
    let legit = legit_peak(cap);
    ensure!(peak <= 2 * legit + (1 << 20), "decompression-allocation", "honest description peaked at {peak}, legitimate maximum {legit}");

    // hand-built encodings of the same circuit
    let (composer, _) = prog::build(&program).map_err(|e| Fail::new("honest-build-error", format!("{e:?}")))?;
    let snap = composer.verif_snapshot();
    let layout = Layout::from_snapshot(&snap);
    if c.rebuilt > 0 && cap >= minimal {
        let mut d = describe_layout(&layout, snap.witnesses.len());
        let variant = match c.rebuilt {
            1 => {
                // sparse witness labels: w -> 1000 * w + 7
                for k in d.constraints.iter_mut() {
                    k.a = 1000 * k.a + 7;
                    k.b = 1000 * k.b + 7;
                    k.c = 1000 * k.c + 7;
                    k.d = 1000 * k.d + 7;
                }
                d.witnesses = 1000 * d.witnesses + 8;
                "sparse witness labels"
            }
            3 | 4 => {
                // a huge DECLARED witness count over unchanged (small) labels:
                // sparse labels are legitimate, and nothing the description
                // merely declares may drive work or memory
                d.witnesses = match (c.rebuilt, c.h1 % 4) {
                    (3, 0) => 1 << 20,
                    (3, 1) => 1 << 24,
                    (3, _) => 1 << 27,
                    (_, 0) => 1 << 28,
                    (_, 1) => 1 << 61,
                    (_, 2) => (1 << 62) + 12345,
                    _ => usize::MAX >> 1,
                };
                "huge declared witness count"
            }
            _ => {
                // reversed polynomial table
                let np = d.polynomials.len();
                d.polynomials.reverse();
                for k in d.constraints.iter_mut() {
                    k.polynomial = np - 1 - k.polynomial;
                }
                "reversed polynomial table"
            }
        };
        let enc = d.encode();
        let (r, peak3) = measure(|| no_panic("compile-compressed-panic", || Compiler::compile_with_compressed(&pp, &c.label, &enc)));
        let r = r?;
        ensure!(
            peak3 <= 2 * legit + (1 << 20),
            "decompression-allocation",
            "hand-built description ({variant}, {} bytes) peaked at {peak3} bytes, legitimate maximum for this capacity {legit}",
            enc.len()
        );
        let (p3, v3) = r.map_err(|e| Fail::new("handbuilt-description-refused", format!("{variant}: {e:?}")))?;
        if let Ok((p1, v1)) = &direct {
            ensure!(p1.to_bytes() == p3.to_bytes() && v1.to_bytes() == v3.to_bytes(), "handbuilt-description-different-keys", "{variant}: keys differ from the direct compilation of the same circuit");
        }
        ctx.label(&format!("hand-built description: {variant}"));
    }

    // hostile descriptions
    let max_constraints = {
        let avail = pp.max_degree() - 6;
        let dom = if avail == 0 { 0 } else { 1usize << (usize::BITS - avail.leading_zeros() - 1) };
        dom.saturating_sub(6)
    };
    let mut d = describe_layout(&layout, snap.witnesses.len());
    let mut raw_payload: Option<Vec<u8>> = None;
    let mut raw_stream: Option<Vec<u8>> = None;
    let hname = match c.hostile {
        0 => {
            // more constraints than the capacity allows
            let extra = max_constraints + 1 - d.constraints.len().min(max_constraints);
            let last = *d.constraints.last().unwrap();
            for _ in 0..extra {
                d.constraints.push(last);
            }
            "more constraints than capacity"
        }
        1 => { d.constraints[0].polynomial = d.polynomials.len(); "polynomial index out of range" }
        2 => { d.polynomials[0][pick((c.h1 & 0xffff) as u16, 11)] = 3 + d.scalars.len(); "scalar index out of range" }
        3 => { d.constraints[0].a = d.witnesses; "witness index out of range" }
        4 => { d.public_inputs.push(d.constraints.len()); "public-input row out of range" }
        5 => {
            if d.public_inputs.len() >= 2 { d.public_inputs.swap(0, 1); } else { d.public_inputs = vec![1, 0]; }
            "unsorted public-input rows"
        }
        6 => {
            // (a description without public inputs gets the same row twice;
            // inserting a single row there would be a VALID description)
            match d.public_inputs.first().copied() {
                Some(p) => d.public_inputs.insert(0, p),
                None => d.public_inputs = vec![2, 2],
            }
            "duplicate public-input row"
        }
        7 => { let mut p = d.pack(); p.push(0xc0); raw_payload = Some(p); "trailing byte after the MessagePack value" }
        8 => { let mut s = d.encode(); s.extend_from_slice(&[0, 1, 2, 3]); raw_stream = Some(s); "trailing bytes after the deflate stream" }
        9 => {
            // deflate bomb: far more payload than the capacity admits
            raw_payload = Some(vec![0u8; 64 << 20]);
            "deflate bomb (64 MiB of zeros)"
        }
        10 => {
            // declared vector length far beyond the data
            let mut p = Vec::new();
            false.pack(&mut p);
            p.push(0xdd);
            p.extend_from_slice(&u32::MAX.to_be_bytes());
            raw_payload = Some(p);
            "public-input vector declares 2^32-1 entries"
        }
        11 => { d.scalars.push([0xff; 32]); let n = d.scalars.len(); d.polynomials[0][0] = 2 + n; "non-canonical scalar in the table" }
        12 => { d.witnesses = 0; "zero witnesses declared" }
        _ => {
            let mut p = d.pack();
            p.truncate(p.len() / 2);
            raw_payload = Some(p);
            "truncated payload"
        }
    };
    let stream = match (raw_stream, raw_payload) {
        (Some(s), _) => s,
        (None, Some(p)) => miniz_oxide::deflate::compress_to_vec(&p, 6),
        _ => d.encode(),
    };
    let (r, peak) = measure(|| no_panic("compile-compressed-panic", || Compiler::compile_with_compressed(&pp, &c.label, &stream)));
    let r = r?;
    ensure!(
        r.is_err(),
        &format!("hostile-description-accepted:{hname}"),
        "{hname}: compile_with_compressed returned Ok (capacity {cap}, max constraints {max_constraints})"
    );
    if let Err(e) = &r {
        // the property demands "an error"; which one is recorded only
        ctx.label(&format!("hostile error kind: {}", sys::err_name(e)));
    }
    ensure!(
        peak <= 2 * legit + (1 << 20),
        "decompression-allocation",
        "{hname}: peak allocation {peak} bytes exceeds twice the legitimate maximum {legit} for capacity {cap}"
    );
    ctx.label(&format!("hostile: {hname}"));
    ctx.add_evals(1);
    if n > 4 && (cap as i64 - minimal as i64).abs() <= 8 {
        ctx.nontrivial_json(&(layout.digest().to_vec(), cap, &c.label));
        ctx.sample(&cls, || json!({"constraints": n, "capacity": cap, "minimal": minimal, "hostile": hname, "rebuilt": c.rebuilt}));
    }
    let _ = Pi::None;
    let _ = Arc::new(0);
    Ok(())
}

fn legit_peak(cap: usize) -> usize {
    use std::collections::HashMap;
    use std::sync::{Mutex, OnceLock};
    static C: OnceLock<Mutex<HashMap<usize, usize>>> = OnceLock::new();
    let m = C.get_or_init(|| Mutex::new(HashMap::new()));
    if let Some(v) = m.lock().unwrap().get(&cap) {
        return *v;
    }
    let pp = sys::pp(cap);
    let avail = pp.max_degree() - 6;
    let dom = if avail == 0 { 0 } else { 1usize << (usize::BITS - avail.leading_zeros() - 1) };
    let maxc = dom.saturating_sub(6);
    let v = if maxc < 5 {
        1 << 20
    } else {
        let program = Arc::new(Program::solved(vec![Op::Pad((maxc - 4) as u16)]));
        let bytes = sys::compress(&program).expect("compress");
        let (_, peak) = measure(|| Compiler::compile_with_compressed(&pp, b"legit", &bytes).map(|_| ()));
        peak
    };
    m.lock().unwrap().insert(cap, v);
    v
}

/// Exact-fit sweep: circuits in which EVERY gate has its own selector tuple
/// (so every dictionary of the description is as long as it can get) at
/// constraint counts 2^k - 8..=2^k - 4, against capacities on both sides of
/// the threshold. Generated programs practically never fill the dictionaries
/// (two `append_public` rows already share a tuple).
pub fn sweeps(ctx: &Ctx) {
    let max_k = ctx.tier.pick(7u32, 10u32);
    let mut n_cases = 0u64;
    for k in 4..=max_k {
        for d in [-8i8, -7, -6, -5, -4] {
            for (cap_delta, with_pi) in [(0i8, false), (1, true), (-1, false), (8, true)] {
                let mut ops = Vec::new();
                if with_pi {
                    ops.push(Op::Gate {
                        q: [Fe(F::from(k as u64 + 2)), Fe(F::one()), Fe(F::zero()), Fe(F::zero()), Fe(F::zero())],
                        qc: Fe(F::zero()),
                        w: [0, 0, 0, 0],
                        pi: crate::prog::Pi::Val(Fe(F::from(77u64))),
                    });
                }
                let c = Case {
                    ops,
                    target: Some((k, d)),
                    label: b"exact-fit".to_vec(),
                    cap_delta,
                    rebuilt: (k % 3) as u8,
                    hostile: (k as u8 + d as u8) % 14,
                    h1: k * 31 + d as u32,
                    // odd seed: padding with pairwise distinct selector tuples
                    seed: (ctx.seed << 1) | 1,
                };
                n_cases += 1;
                if let Err(f) = check(ctx, &c) {
                    ctx.violation("compressed", &f, serde_json::to_value(&c).unwrap());
                    return;
                }
            }
        }
    }
    ctx.label_n("sweep: all-distinct selector tuples at exact-fit sizes", n_cases);
}

pub fn props() -> Vec<(Box<dyn PropDyn>, u32, u32)> {
    vec![(Box::new(Prop::new("compressed", case_strategy, check).shrink(120)), 640, 12000)]
}

pub fn describe(ctx: &Ctx) {
    ctx.rule("cases: generated programs emphasising unused witnesses, allocation order != first-use order, repeated and distinct selector tuples, selectors 0/+-1 and entries of the built-in constant table, zero-valued public inputs, public inputs on the first and last row, sizes around 2^k-6, x labels x every capacity in minimal-8..=minimal+8 (non powers of two included). Oracle: direct and compressed routes succeed for exactly the same capacities with byte-identical Prover and Verifier; hand-built encodings of the same circuit (own MessagePack+deflate encoder: sparse witness labels, reversed polynomial table, a declared witness count of 2^20..2^63 over unchanged labels - allocation bounded like every other compile) compile to the same keys; 14 hostile description kinds (more constraints than capacity, out-of-range polynomial/scalar/witness/public-input indices, unsorted/duplicate public-input rows, trailing bytes after the MessagePack value / the deflate stream, 64 MiB deflate bomb, 2^32-1 declared entries, non-canonical scalar, zero witnesses, truncated payload) are refused with an error, without panic, with per-thread peak allocation <= 2x a legitimate maximal-capacity compile + 1 MiB. plus an exact-fit sweep of circuits whose gates all carry distinct selector tuples (full dictionaries) at 2^k-8..2^k-4 constraints. non-trivial = more than the fixed rows and capacity within 8 of the threshold; distinct by (layout digest, capacity, label)");
    ctx.assume("selectors equal to built-in table entries are drawn from the table the crate exposes through the verif hook (values only; their indices are never used)");
}
