//! C04 — a proof binds its statement: public inputs, circuit, label, version.

use std::sync::Arc;

use dusk_bytes::{DeserializableSlice, Serializable};
use dusk_plonk::prelude::{Error, PlonkVersion, Proof, Verifier};
use proptest::prelude::*;
use serde::{Deserialize, Serialize};
use serde_json::json;

use crate::checks::c03;
use crate::fe::{fe_any, pick, Fe, F};
use crate::prog::{self, Op, Pi, Program};
use crate::refprover::{self, Deviation};
use crate::refver::{RefVerifier, Version};
use crate::runner::{no_panic, Ctx, Fail, PResult, Prop, PropDyn, Tier};
use crate::spec::Layout;
use crate::sys::{self, Route};

#[derive(Debug, Clone, Serialize, Deserialize)]
pub enum CircuitMut {
    /// change one coefficient of one general gate
    Selector { gate: u16, which: u8, to: Fe },
    /// re-point one wire of one general gate
    Wire { gate: u16, which: u8, to: u16 },
    /// add / remove a public input on one gate, or move it to another gate
    PiAdd { gate: u16, value: Fe },
    PiRemove { gate: u16 },
    PiMove { from: u16, to: u16 },
    /// one constraint more / fewer
    ExtraGate,
    DropOp { op: u16 },
}

#[derive(Debug, Clone, Serialize, Deserialize)]
pub struct Case {
    pub ops: Vec<Op>,
    pub label: Vec<u8>,
    pub seed: u64,
    pub pi_muts: Vec<(u16, u8, Fe)>,
    pub circ_muts: Vec<CircuitMut>,
    pub label_muts: Vec<(u16, u8)>,
}

fn gate_op() -> BoxedStrategy<Op> {
    (proptest::array::uniform5(prog::coeff()), [any::<u16>(), any::<u16>(), any::<u16>(), any::<u16>()], prog::pi_strategy())
        .prop_map(|(q, w, pi)| Op::Gate { q, qc: Fe(F::zero()), w, pi })
        .boxed()
}

fn case_strategy(_t: Tier) -> BoxedStrategy<Case> {
    let op = prop_oneof![4 => gate_op(), 2 => fe_any().prop_map(Op::Public), 6 => prog::light_op(), 1 => prog::medium_op()];
    let cm = prop_oneof![
        3 => (any::<u16>(), 0u8..5, fe_any()).prop_map(|(gate, which, to)| CircuitMut::Selector { gate, which, to }),
        3 => (any::<u16>(), 0u8..4, any::<u16>()).prop_map(|(gate, which, to)| CircuitMut::Wire { gate, which, to }),
        2 => (any::<u16>(), prop_oneof![1 => Just(Fe(F::zero())), 2 => fe_any()]).prop_map(|(gate, value)| CircuitMut::PiAdd { gate, value }),
        2 => any::<u16>().prop_map(|gate| CircuitMut::PiRemove { gate }),
        2 => (any::<u16>(), any::<u16>()).prop_map(|(from, to)| CircuitMut::PiMove { from, to }),
        1 => Just(CircuitMut::ExtraGate),
        1 => any::<u16>().prop_map(|op| CircuitMut::DropOp { op }),
    ];
    (
        prog::with_pi_burst(proptest::collection::vec(op, 2..14).boxed(), 250),
        // labels: short, around the 32-byte mark, long; bytes incl. 0x00
        prop_oneof![
            3 => proptest::collection::vec(any::<u8>(), 0..10),
            2 => proptest::collection::vec(prop_oneof![1 => Just(0u8), 3 => any::<u8>()], 28..40),
            1 => proptest::collection::vec(any::<u8>(), 40..70),
        ],
        any::<u64>(),
        proptest::collection::vec((any::<u16>(), 0u8..10, fe_any()), 6),
        proptest::collection::vec(cm, 4),
        proptest::collection::vec((any::<u16>(), 0u8..7), 4),
    )
        .prop_map(|(ops, label, seed, pi_muts, circ_muts, label_muts)| Case {
            ops,
            label,
            seed,
            pi_muts,
            circ_muts,
            label_muts,
        })
        .boxed()
}

struct Compiled {
    verifier: Verifier,
    rv: RefVerifier,
    layout: Layout,
    /// non-zero public inputs by row
    pi_map: Vec<(usize, F)>,
}

fn compile(ops: &[Op], label: &[u8], cap_hint: usize) -> Result<(Arc<Program>, Compiled, dusk_plonk::prelude::Prover), Fail> {
    let program = Arc::new(Program::solved(ops.to_vec()));
    let (c, _) = prog::build(&program).map_err(|e| Fail::new("honest-build-error", format!("{e:?}")))?;
    let snap = c.verif_snapshot();
    let layout = Layout::from_snapshot(&snap);
    let pp = sys::pp(sys::min_capacity(layout.rows.len()).max(cap_hint));
    let (prover, verifier) = sys::compile(&pp, label, &program, Route::Instance)
        .map_err(|e| Fail::new("compile-error", format!("{e:?}")))?;
    let rv = RefVerifier::parse(&verifier.to_bytes()).map_err(|e| Fail::new("refver-parse", e))?;
    let pi_map = snap.public_inputs.iter().filter(|(_, v)| *v != F::zero()).cloned().collect();
    Ok((program, Compiled { verifier, rv, layout, pi_map }, prover))
}

fn apply(ops: &[Op], m: &CircuitMut) -> Option<Vec<Op>> {
    let mut ops = ops.to_vec();
    let gates: Vec<usize> = ops.iter().enumerate().filter(|(_, o)| matches!(o, Op::Gate { .. })).map(|(i, _)| i).collect();
    let g = |i: &u16| -> Option<usize> {
        if gates.is_empty() {
            None
        } else {
            Some(gates[pick(*i, gates.len())])
        }
    };
    match m {
        CircuitMut::Selector { gate, which, to } => {
            let i = g(gate)?;
            if let Op::Gate { q, .. } = &mut ops[i] {
                if q[*which as usize % 5] == *to {
                    return None;
                }
                q[*which as usize % 5] = *to;
            }
        }
        CircuitMut::Wire { gate, which, to } => {
            let i = g(gate)?;
            if let Op::Gate { w, .. } = &mut ops[i] {
                if w[*which as usize % 4] == *to {
                    return None;
                }
                w[*which as usize % 4] = *to;
            }
        }
        CircuitMut::PiAdd { gate, value } => {
            let i = g(gate)?;
            if let Op::Gate { pi, .. } = &mut ops[i] {
                if pi.present() {
                    return None;
                }
                *pi = if value.0 == F::zero() { Pi::Zero } else { Pi::Val(*value) };
            }
        }
        CircuitMut::PiRemove { gate } => {
            let i = g(gate)?;
            if let Op::Gate { pi, .. } = &mut ops[i] {
                if !pi.present() {
                    return None;
                }
                *pi = Pi::None;
            }
        }
        CircuitMut::PiMove { from, to } => {
            let (i, j) = (g(from)?, g(to)?);
            if i == j {
                return None;
            }
            let pi_i = if let Op::Gate { pi, .. } = &ops[i] { pi.clone() } else { return None };
            let pi_j = if let Op::Gate { pi, .. } = &ops[j] { pi.clone() } else { return None };
            if !pi_i.present() || pi_j.present() {
                return None;
            }
            if let Op::Gate { pi, .. } = &mut ops[i] {
                *pi = Pi::None;
            }
            if let Op::Gate { pi, .. } = &mut ops[j] {
                *pi = pi_i;
            }
        }
        CircuitMut::ExtraGate => ops.push(Op::Pad(1)),
        CircuitMut::DropOp { op } => {
            let i = pick(*op, ops.len());
            ops.remove(i);
        }
    }
    Some(ops)
}

fn check(ctx: &Ctx, c: &Case) -> PResult {
    let (program, orig, prover) = compile(&c.ops, &c.label, 32)?;
    let (proof, pi) = sys::prove(&prover, &program, c.seed).map_err(|e| Fail::new("prove-error", format!("{e:?}")))?;
    let bytes = proof.to_bytes().to_vec();
    let v3 = PlonkVersion::V3;
    c03::compare(ctx, "honest", &orig.verifier, &orig.rv, &bytes, &pi, v3, Some(true))?;

    // public-input vector mutations
    for (pos, kind, val) in &c.pi_muts {
        let mut p2 = pi.clone();
        let len = pi.len();
        let i = if len == 0 { 0 } else { pick(*pos, len) };
        let class = match kind % 10 {
            0 if len > 0 => { p2[i] += F::one(); "pi value +1" }
            1 if len > 0 => { p2[i] = -p2[i]; "pi value negated" }
            2 if len > 0 => { p2[i] = val.0; "pi value replaced" }
            3 if len > 0 => { p2[i] = F::zero(); "pi value zeroed" }
            4 if len > 1 => { p2[i] = pi[(i + 1) % len]; "pi value of another position" }
            5 if len > 1 => { p2.swap(i, (i + 1) % len); "pi swap" }
            6 if len > 1 => { p2.rotate_left(1); "pi rotate" }
            7 if len > 1 => { p2.reverse(); "pi reverse" }
            8 if len > 0 => { p2.truncate(len - 1 - (i % len.min(3)).min(len - 1)); "pi truncated" }
            _ => { for k in 0..=(kind % 3) { p2.push(if k == 0 { F::zero() } else { val.0 }); } "pi extended" }
        };
        if p2 == pi {
            ctx.excluded("public-input mutation left the vector unchanged");
            continue;
        }
        let r = no_panic("verify-panic", || orig.verifier.verify(&proof, &p2))?;
        match &r {
            Ok(()) => {
                return Err(Fail::new(
                    format!("accepted-with-other-public-inputs:{class}"),
                    format!("proof accepted with a different public-input vector ({class}); original {} entries", len),
                ))
            }
            Err(e) => {
                if p2.len() != len {
                    // the property demands an error; the kind is recorded
                    ctx.label(if matches!(e, Error::InconsistentPublicInputsLen { .. }) {
                        "length change: InconsistentPublicInputsLen"
                    } else {
                        "length change: other error"
                    });
                }
            }
        }
        ctx.eval(&format!("{class}: reject"));
        ctx.nontrivial_json(&(&bytes[..32], class, p2.iter().map(|x| x.to_bytes().to_vec()).collect::<Vec<_>>()));
    }

    // near-miss circuits under the same label
    for m in &c.circ_muts {
        let Some(ops2) = apply(&c.ops, m) else {
            ctx.excluded("circuit mutation not applicable / no change");
            continue;
        };
        let Ok((_, other, _)) = compile(&ops2, &c.label, 32) else {
            ctx.excluded("near-miss circuit does not build");
            continue;
        };
        let mname = format!("{m:?}");
        let mname = mname.split(|ch: char| !ch.is_alphanumeric()).next().unwrap_or("").to_string();
        // the vector the near-miss statement is naturally made of: the original
        // values by ROW, zero on rows that carry no original public input
        let aligned: Vec<F> = other
            .rv
            .pi_rows
            .iter()
            .map(|r| orig.rv.pi_rows.iter().position(|o| o == r).map(|k| pi[k]).unwrap_or(F::zero()))
            .collect();
        // statement-equivalent mutants are not binding failures: identical key
        // (public-input rows are not part of it), identical non-zero
        // public-input map AND the same public-input vector (a zero-valued
        // public input moved to another row)
        let same_key = other.rv.comm == orig.rv.comm
            && other.rv.constraints == orig.rv.constraints
            && other.pi_map == orig.pi_map
            && other.layout.rows.len() == orig.layout.rows.len();
        if same_key && other.rv.pi_rows.len() == orig.rv.pi_rows.len() {
            ctx.excluded(&format!("near-miss {mname}: same relation and same vector (identical key, a zero-valued public input on another row)"));
            continue;
        }
        if same_key {
            // a zero-valued public-input row more or fewer: the key and PI(X)
            // are the same, but the statement's vector has another length and
            // every entry (zero or not) is absorbed by the transcript
            c03::compare(ctx, &format!("near-miss circuit ({mname}: zero-valued public-input row added/removed, aligned vector)"), &other.verifier, &other.rv, &bytes, &aligned, v3, Some(false))?;
            continue;
        }
        if other.verifier.to_bytes() == orig.verifier.to_bytes() {
            ctx.excluded("near-miss compiled to the identical verifier");
            continue;
        }
        // offer the proof with the original public inputs, padded/truncated to
        // the near-miss circuit's count, and aligned by row
        let mut p2 = pi.clone();
        p2.resize(other.rv.pi_rows.len(), F::zero());
        c03::compare(ctx, &format!("near-miss circuit ({mname})"), &other.verifier, &other.rv, &bytes, &p2, v3, Some(false))?;
        if aligned != p2 {
            c03::compare(ctx, &format!("near-miss circuit ({mname}, vector aligned by row)"), &other.verifier, &other.rv, &bytes, &aligned, v3, Some(false))?;
        }
    }

    // labels
    for (pos, kind) in &c.label_muts {
        let mut l2 = c.label.clone();
        match kind % 7 {
            0 if !l2.is_empty() => {
                let i = pick(*pos, l2.len());
                l2[i] ^= 1 << (pos % 8);
            }
            1 => l2.push((*pos & 0xff) as u8),
            2 if !l2.is_empty() => {
                l2.pop();
            }
            // length-only differences: trailing zero bytes
            3 => l2.push(0),
            4 => l2.extend_from_slice(&[0u8; 3][..1 + (*pos as usize % 3)]),
            // the last byte only
            5 if !l2.is_empty() => {
                let i = l2.len() - 1;
                l2[i] = l2[i].wrapping_add(1 + (*pos & 0x7f) as u8);
            }
            _ => {
                if l2.is_empty() {
                    l2.push(0)
                } else {
                    l2.clear()
                }
            }
        }
        if l2 == c.label {
            ctx.excluded("label mutation left the label unchanged");
            continue;
        }
        let (_, other, _) = compile(&c.ops, &l2, 32)?;
        c03::compare(ctx, "same circuit, other label", &other.verifier, &other.rv, &bytes, &pi, v3, Some(false))?;
    }

    // every ordered (proof version, verifier version) pair
    let (p2, _) = sys::prove_version(&prover, &program, c.seed, PlonkVersion::V2).map_err(|e| Fail::new("prove-error", format!("{e:?}")))?;
    let b2 = p2.to_bytes().to_vec();
    let mut proofs: Vec<(PlonkVersion, Vec<u8>)> = vec![(PlonkVersion::V3, bytes.clone()), (PlonkVersion::V2, b2)];
    // a V1 proof from the reference prover (no V1 prover exists in the crate)
    if orig.layout.size() <= 64 {
        let cap = sys::min_capacity(orig.layout.rows.len()).max(32);
        let pp = sys::pp(cap);
        let srs = refprover::srs_for(cap, &pp, orig.layout.size() + 7);
        if let Some(keys) = refprover::ref_keys(&orig.layout, &c.label, &srs) {
            let (comp, _) = prog::build(&program).map_err(|e| Fail::new("honest-build-error", format!("{e:?}")))?;
            let snap = comp.verif_snapshot();
            let bl = crate::fe::f_stream(c.seed ^ 0x71, 14);
            let mut b14 = [F::zero(); 14];
            b14.copy_from_slice(&bl);
            if let Ok(out) = refprover::prove(&keys, &orig.layout, &srs, &snap.witnesses, &snap.public_inputs, &b14, Version::V1, &Deviation::default()) {
                proofs.push((PlonkVersion::V1, out.proof.to_bytes()));
            }
        }
    }
    for (pv, pb) in &proofs {
        for vv in [PlonkVersion::V1, PlonkVersion::V2, PlonkVersion::V3] {
            let expect = *pv == vv;
            c03::compare(ctx, &format!("{pv:?} proof under {vv:?}"), &orig.verifier, &orig.rv, pb, &pi, vv, Some(expect))?;
        }
    }
    match pi.len() {
        0..=15 => {}
        16..=31 => ctx.label("16-31 public inputs"),
        32..=63 => ctx.label("32-63 public inputs"),
        _ => ctx.label("64+ public inputs"),
    }
    ctx.sample("subject", || json!({"ops": c.ops.iter().map(|o| o.name()).collect::<Vec<_>>(), "public_inputs": pi.len()}));
    let _ = Proof::from_slice;
    Ok(())
}

/// Version binding in builds of the crate WITHOUT `legacy-proving` (this
/// harness links it WITH the feature, because it needs V2 proofs): the
/// alloc-only build and the default-feature build each prove under V3 and
/// verify under V1/V2/V3, on the compiled verifier and on one rebuilt from
/// bytes. A V3 proof is accepted under V3 only; legacy proving is refused (and
/// if it is not, the legacy proof is bound to its own version).
pub fn sweeps(ctx: &Ctx) {
    for (dir, bin, what) in [
        ("harness-nostd", "nostd-digest", "alloc-only build without legacy-proving"),
        ("harness-nolegacy", "nolegacy-digest", "default-feature build without legacy-proving"),
    ] {
        let path = std::path::Path::new(crate::runner::verif_root()).join(dir).join("target/fast").join(bin);
        if !path.exists() {
            ctx.infra_problem(format!("{} is missing (run ./setup.sh)", path.display()));
            return;
        }
        let out = std::process::Command::new(&path).arg("versions").env("VERIF_SEED", ctx.seed.to_string()).output();
        let Ok(o) = out else {
            ctx.infra_problem(format!("{} could not be run", path.display()));
            return;
        };
        if !o.status.success() {
            let f = Fail::new("version-probe-crashed", format!("{what}: the version probe exited with {:?}: {}", o.status.code(), String::from_utf8_lossy(&o.stderr).chars().take(300).collect::<String>()));
            ctx.violation("binding", &f, json!({"build": what}));
            return;
        }
        let text = String::from_utf8_lossy(&o.stdout).to_string();
        let mut seen = 0;
        for line in text.lines() {
            let mut it = line.split_whitespace();
            let (Some(key), Some(val)) = (it.next(), it.next()) else { continue };
            let parts: Vec<&str> = key.split('.').collect();
            ctx.add_evals(1);
            if parts.get(1) == Some(&"error") {
                let f = Fail::new("version-probe-error", format!("{what}: {line}"));
                ctx.violation("binding", &f, json!({"build": what, "line": line}));
                return;
            }
            // <size>.<X>proof[.frombytes].<V>  accept|reject
            if let Some(pv) = parts.get(1).and_then(|p| p.strip_suffix("proof")) {
                let vv = parts.last().copied().unwrap_or("");
                let expect = pv.eq_ignore_ascii_case(vv);
                seen += 1;
                ctx.label(&format!("{what}: {} proof under {vv}: {val}", pv.to_uppercase()));
                if (val == "accept") != expect {
                    let f = Fail::new(
                        if val == "accept" { "accepted-under-other-version" } else { "expected-accept-rejected" },
                        format!("{what}: a {} proof presented under {vv} was {val}ed ({line})", pv.to_uppercase()),
                    );
                    ctx.violation("binding", &f, json!({"build": what, "line": line}));
                    return;
                }
            }
        }
        if seen < 12 {
            ctx.infra_problem(format!("{what}: version probe printed only {seen} verdicts"));
            return;
        }
    }
}

pub fn props() -> Vec<(Box<dyn PropDyn>, u32, u32)> {
    vec![(Box::new(Prop::new("binding", case_strategy, check).shrink(80)), 200, 4000)]
}

pub fn describe(ctx: &Ctx) {
    ctx.rule("for an honest (circuit, proof, public inputs): public-input mutations {+1, negate, replace, zero, value of another position, swap, rotate, reverse, truncate by 1..3, extend by 1..3 zeros/values}; near-miss circuits compiled under the same label {one selector value, one wire, one public-input row added / removed / moved, one constraint more, one component fewer}; labels with one bit flipped / one byte longer / shorter / empty; every ordered (proof version, verifier version) pair with V1 proofs produced by the reference prover. Oracle: verify returns Err (InconsistentPublicInputsLen for length changes) and never panics; accept exactly on the matching version; reference verifier agrees. Version pairs are additionally probed in two builds of the crate WITHOUT the legacy-proving feature (alloc-only and default features; the harness itself links the feature for V2 proofs). Statement-equivalent mutants (identical key and identical non-zero public-input map) are excluded by construction and counted. non-trivial = mutated statement differs from the honest one; distinct by hash of the offered triple");
}
