//! C03 — the verifier decides exactly the protocol's equation and transcript:
//! differential against the independent reference verifier on honest,
//! bit-flipped, field-substituted, cross-circuit and cross-version triples.

use std::sync::Arc;

use dusk_bytes::{DeserializableSlice, Serializable};
use dusk_plonk::prelude::{PlonkVersion, Proof, Verifier};
use proptest::prelude::*;
use serde::{Deserialize, Serialize};
use serde_json::json;

use crate::ensure;
use crate::fe::{f_stream, pick, F};
use crate::prog::{self, Op, Program};
use crate::refver::{self, RefProof, RefVerifier, Version, PROOF_LEN};
use crate::runner::{no_panic, Ctx, Fail, PResult, Prop, PropDyn, Tier};
use crate::sys::{self, Route};

#[derive(Debug, Clone, Serialize, Deserialize)]
pub struct Case {
    pub ops: Vec<Op>,
    pub ops2: Vec<Op>,
    pub label: Vec<u8>,
    pub seed: u64,
    /// bit positions (scaled into 0..8064)
    pub flips: Vec<u16>,
    /// (field 0..26, source kind)
    pub subs: Vec<(u8, u8)>,
    /// public-input edits: (position, kind)
    pub pi_edits: Vec<(u16, u8)>,
}

fn case_strategy(t: Tier) -> BoxedStrategy<Case> {
    let nflips = t.pick(24usize, 64usize);
    (
        prog::with_pi_burst(prog::ops_strategy(16, 3, 1), 200),
        prog::ops_strategy(8, 1, 0),
        proptest::collection::vec(any::<u8>(), 0..12),
        any::<u64>(),
        proptest::collection::vec(any::<u16>(), nflips),
        proptest::collection::vec((0u8..26, 0u8..4), 8),
        proptest::collection::vec((any::<u16>(), 0u8..4), 3),
    )
        .prop_map(|(ops, ops2, label, seed, flips, subs, pi_edits)| Case {
            ops,
            ops2,
            label,
            seed,
            flips,
            subs,
            pi_edits,
        })
        .boxed()
}

pub fn field_range(field: usize) -> std::ops::Range<usize> {
    if field < 11 {
        48 * field..48 * (field + 1)
    } else {
        let j = field - 11;
        528 + 32 * j..528 + 32 * (j + 1)
    }
}

/// implementation verdict on raw bytes: Err = the decoder refused
pub fn impl_verdict(
    verifier: &Verifier,
    proof_bytes: &[u8],
    pi: &[F],
    version: PlonkVersion,
) -> Result<Result<bool, String>, Fail> {
    let decoded = no_panic("proof-decode-panic", || Proof::from_slice(proof_bytes))?;
    let Ok(proof) = decoded else {
        return Ok(Err("decode".into()));
    };
    let r = no_panic("verify-panic", || {
        verifier.verify_with_version(&proof, pi, version)
    })?;
    Ok(Ok(r.is_ok()))
}

pub fn ref_verdict(
    rv: &RefVerifier,
    proof_bytes: &[u8],
    pi: &[F],
    version: Version,
) -> Result<bool, String> {
    let rp = RefProof::parse(proof_bytes)?;
    Ok(refver::verify(rv, &rp, pi, version).accept)
}

pub struct Subject {
    pub program: Arc<Program>,
    pub verifier: Verifier,
    pub rv: RefVerifier,
    pub proof: Vec<u8>,
    pub proof_b: Vec<u8>,
    pub proof_v2: Vec<u8>,
    pub pi: Vec<F>,
    /// a V1 proof of the same instance made by the reference prover (the
    /// crate has no V1 prover); None above the reference prover's size budget
    pub proof_v1: Option<Vec<u8>>,
    /// [x]_1 of the public parameters (second power of the SRS)
    pub x_g: dusk_bls12_381::G1Affine,
}

/// V1 proof of the program's own assignment from the independent reference
/// prover (circuits of at most 128 rows)
fn v1_proof(composer: &dusk_plonk::prelude::Composer, label: &[u8], cap: usize, seed: u64) -> Option<Vec<u8>> {
    use crate::refprover::{self, Deviation};
    let snap = composer.verif_snapshot();
    let layout = crate::spec::Layout::from_snapshot(&snap);
    if layout.size() > 128 {
        return None;
    }
    let pp = sys::pp(cap);
    let srs = refprover::srs_for(cap, &pp, layout.size() + 7);
    let keys = refprover::ref_keys(&layout, label, &srs)?;
    let bl = f_stream(seed ^ 0x7131, 14);
    let mut b14 = [F::zero(); 14];
    b14.copy_from_slice(&bl);
    refprover::prove(&keys, &layout, &srs, &snap.witnesses, &snap.public_inputs, &b14, Version::V1, &Deviation::default())
        .ok()
        .map(|o| o.proof.to_bytes().to_vec())
}

pub fn subject(ops: &[Op], label: &[u8], seed: u64) -> Result<Subject, Fail> {
    let program = Arc::new(Program::solved(ops.to_vec()));
    let (c, _) = prog::build(&program)
        .map_err(|e| Fail::new("honest-build-error", format!("{e:?}")))?;
    let n = c.constraints();
    let cap = sys::min_capacity(n).max(64);
    let pp = sys::pp(cap);
    let proof_v1 = v1_proof(&c, label, cap, seed);
    let x_g = crate::refprover::srs_for(cap, &pp, 2).powers[1];
    let (prover, verifier) = sys::compile(&pp, label, &program, Route::Instance)
        .map_err(|e| Fail::new("compile-error", format!("{e:?}")))?;
    let (proof, pi) = sys::prove(&prover, &program, seed)
        .map_err(|e| Fail::new("prove-error", format!("{e:?}")))?;
    let (proof_b, _) = sys::prove(&prover, &program, seed ^ 0xabcdef)
        .map_err(|e| Fail::new("prove-error", format!("{e:?}")))?;
    let (proof_v2, _) =
        sys::prove_version(&prover, &program, seed, PlonkVersion::V2)
            .map_err(|e| Fail::new("prove-error", format!("{e:?}")))?;
    let rv = RefVerifier::parse(&verifier.to_bytes())
        .map_err(|e| Fail::new("refver-parse", e))?;
    Ok(Subject {
        program,
        verifier,
        rv,
        proof: proof.to_bytes().to_vec(),
        proof_b: proof_b.to_bytes().to_vec(),
        proof_v2: proof_v2.to_bytes().to_vec(),
        pi,
        proof_v1,
        x_g,
    })
}

/// One triple through both verifiers. `expect`: Some(v) when the class has a
/// known verdict.
pub fn compare(
    ctx: &Ctx,
    class: &str,
    verifier: &Verifier,
    rv: &RefVerifier,
    bytes: &[u8],
    pi: &[F],
    version: PlonkVersion,
    expect: Option<bool>,
) -> PResult {
    let iv = impl_verdict(verifier, bytes, pi, version)?;
    let rvd = ref_verdict(rv, bytes, pi, refver::version_of(version));
    let vname = format!("{version:?}");
    match (&iv, &rvd) {
        (Err(_), Err(_)) => {
            ctx.eval(&format!("{class}: decoder rejects"));
            return Ok(());
        }
        (Ok(a), Ok(b)) => {
            ensure!(
                a == b,
                if *a {
                    "impl-accepts-reference-rejects"
                } else {
                    "impl-rejects-reference-accepts"
                },
                "{class} [{vname}]: implementation {} but the protocol equation {}",
                if *a { "accepts" } else { "rejects" },
                if *b { "holds" } else { "fails" }
            );
            if let Some(e) = expect {
                ensure!(
                    *a == e,
                    if e {
                        "expected-accept-rejected"
                    } else {
                        "expected-reject-accepted"
                    },
                    "{class} [{vname}]: both verifiers say {} but the class demands {}",
                    a,
                    e
                );
            }
            ctx.eval(&format!(
                "{class} [{vname}]: {}",
                if *a { "accept" } else { "reject" }
            ));
            ctx.sample(&format!("{class} [{vname}]"), || {
                serde_json::json!({"class": class, "version": vname, "verdict_both": if *a { "accept" } else { "reject" },
                    "proof_sha256_prefix": hex::encode(&<sha2::Sha256 as sha2::Digest>::digest(bytes)[..8]), "public_inputs": pi.len()})
            });
            let mut key = bytes.to_vec();
            key.extend_from_slice(&rv.label);
            key.push(version as u8);
            for p in pi {
                key.extend_from_slice(&p.to_bytes());
            }
            ctx.nontrivial(&key);
            Ok(())
        }
        _ => Err(Fail::new(
            "decoder-disagreement",
            format!("{class}: implementation decode {:?} vs reference decode {:?}", iv.as_ref().err(), rvd.as_ref().err()),
        )),
    }
}

fn check(ctx: &Ctx, c: &Case) -> PResult {
    let s = subject(&c.ops, &c.label, c.seed)?;
    let v3 = PlonkVersion::V3;
    // honest, on every version pairing
    compare(ctx, "honest", &s.verifier, &s.rv, &s.proof, &s.pi, v3, Some(true))?;
    compare(ctx, "honest-v2", &s.verifier, &s.rv, &s.proof_v2, &s.pi, PlonkVersion::V2, Some(true))?;
    compare(ctx, "v3-proof-as-v2", &s.verifier, &s.rv, &s.proof, &s.pi, PlonkVersion::V2, Some(false))?;
    compare(ctx, "v3-proof-as-v1", &s.verifier, &s.rv, &s.proof, &s.pi, PlonkVersion::V1, Some(false))?;
    compare(ctx, "v2-proof-as-v3", &s.verifier, &s.rv, &s.proof_v2, &s.pi, v3, Some(false))?;
    compare(ctx, "v2-proof-as-v1", &s.verifier, &s.rv, &s.proof_v2, &s.pi, PlonkVersion::V1, Some(false))?;

    // V1 (legacy equation without the selector openings in the batch): accept
    // side from the reference prover, then the same edits as for V3
    if let Some(p1) = &s.proof_v1 {
        let v1 = PlonkVersion::V1;
        compare(ctx, "honest-v1 (reference prover)", &s.verifier, &s.rv, p1, &s.pi, v1, Some(true))?;
        compare(ctx, "v1-proof-as-v2", &s.verifier, &s.rv, p1, &s.pi, PlonkVersion::V2, Some(false))?;
        compare(ctx, "v1-proof-as-v3", &s.verifier, &s.rv, p1, &s.pi, v3, Some(false))?;
        for f in c.flips.iter().take(10) {
            let bit = pick(*f, PROOF_LEN * 8);
            let mut b = p1.clone();
            b[bit / 8] ^= 1 << (bit % 8);
            // the four selector openings are not part of the V1 batch; the
            // reference decides (q_arith..q_r are fields 18..=21)
            let field = if bit / 8 < 528 { bit / 8 / 48 } else { 11 + (bit / 8 - 528) / 32 };
            let expect = if (18..=21).contains(&field) { None } else { Some(false) };
            compare(ctx, if bit / 8 < 528 { "v1 bit-flip commitment" } else { "v1 bit-flip evaluation" }, &s.verifier, &s.rv, &b, &s.pi, v1, expect)?;
        }
        for field in 11..26usize {
            // every evaluation of the V1 proof replaced by that of the V3 proof
            let r = field_range(field);
            let mut b = p1.clone();
            b[r.clone()].copy_from_slice(&s.proof[r.clone()]);
            if b == *p1 {
                ctx.excluded("substitution left the proof unchanged");
                continue;
            }
            compare(ctx, "v1 evaluation from the V3 proof", &s.verifier, &s.rv, &b, &s.pi, v1, None)?;
        }
        if !s.pi.is_empty() {
            let mut pi = s.pi.clone();
            pi[0] += F::one();
            compare(ctx, "v1 public input changed", &s.verifier, &s.rv, p1, &pi, v1, Some(false))?;
        }
    } else {
        ctx.excluded("circuit above the reference prover's budget: no V1 accept side");
    }

    // the folding challenge u (never computed by the prover) must depend on
    // both opening commitments: a pair shifted with a u learnt too early
    // cancels in the pairing check of a verifier that derives u too early
    {
        let mut subjects: Vec<(&[u8], PlonkVersion)> = vec![(&s.proof, v3), (&s.proof_v2, PlonkVersion::V2)];
        if let Some(p1) = &s.proof_v1 {
            subjects.push((p1, PlonkVersion::V1));
        }
        let shift = f_stream(c.seed ^ 0x1a7e, 1)[0];
        for (pb, ver) in subjects {
            let rp = RefProof::parse(pb).map_err(|e| Fail::new("refver-parse", e))?;
            for early in 0u8..4 {
                for sft in [F::one(), shift] {
                    if let Some(forged) = refver::late_bound_opening_pair(&s.rv, &rp, &s.pi, refver::version_of(ver), early, &s.x_g, &sft) {
                        compare(
                            ctx,
                            match early { 0 => "opening pair shifted with u drawn before both commitments", 1 => "opening pair shifted with u drawn after W_z only", 2 => "opening pair shifted with u drawn after W_z absorbed twice", _ => "opening pair shifted with u drawn after W_z under the second label" },
                            &s.verifier, &s.rv, &forged.to_bytes(), &s.pi, ver, Some(false),
                        )?;
                    }
                }
            }
        }
    }

    // verifier rebuilt from bytes decides the same
    let vb = Verifier::try_from_bytes(s.verifier.to_bytes())
        .map_err(|e| Fail::new("verifier-bytes-roundtrip", format!("{e:?}")))?;
    compare(ctx, "honest (verifier from bytes)", &vb, &s.rv, &s.proof, &s.pi, v3, Some(true))?;

    // single-bit flips
    for f in &c.flips {
        let bit = pick(*f, PROOF_LEN * 8);
        let mut b = s.proof.clone();
        b[bit / 8] ^= 1 << (bit % 8);
        let class = if bit / 8 < 528 {
            "bit-flip commitment"
        } else {
            "bit-flip evaluation"
        };
        compare(ctx, class, &s.verifier, &s.rv, &b, &s.pi, v3, Some(false))?;
    }
    // field substitutions by other valid elements
    let rnd = f_stream(c.seed, 8);
    for (i, (field, kind)) in c.subs.iter().enumerate() {
        let field = *field as usize % 26;
        let r = field_range(field);
        let mut b = s.proof.clone();
        let class;
        match kind % 4 {
            0 => {
                // same field of another valid proof of the same circuit
                b[r.clone()].copy_from_slice(&s.proof_b[r.clone()]);
                class = "field from another valid proof";
            }
            1 => {
                // another field of the same kind from the same proof
                let other = if field < 11 {
                    (field + 1 + i) % 11
                } else {
                    11 + (field - 11 + 1 + i) % 15
                };
                let src = s.proof[field_range(other)].to_vec();
                b[r.clone()].copy_from_slice(&src);
                class = "field from another slot";
            }
            2 => {
                if field < 11 {
                    let p = dusk_bls12_381::G1Affine::from(
                        dusk_bls12_381::G1Affine::generator() * rnd[i % 8],
                    );
                    b[r.clone()].copy_from_slice(&p.to_bytes());
                } else {
                    b[r.clone()].copy_from_slice(&rnd[i % 8].to_bytes());
                }
                class = "field replaced by a random valid element";
            }
            _ => {
                if field < 11 {
                    b[r.clone()].copy_from_slice(
                        &dusk_bls12_381::G1Affine::identity().to_bytes(),
                    );
                } else {
                    b[r.clone()].copy_from_slice(&F::zero().to_bytes());
                }
                class = "field replaced by identity/zero";
            }
        }
        if b == s.proof {
            ctx.excluded("substitution left the proof unchanged");
            continue;
        }
        compare(ctx, class, &s.verifier, &s.rv, &b, &s.pi, v3, Some(false))?;
    }
    // public-input edits
    for (pos, kind) in &c.pi_edits {
        if s.pi.is_empty() {
            break;
        }
        let mut pi = s.pi.clone();
        let i = pick(*pos, pi.len());
        match kind % 4 {
            0 => pi[i] += F::one(),
            1 => pi[i] = -pi[i] + F::from(3u64),
            2 => pi[i] = rnd[0],
            _ => {
                let j = (i + 1) % pi.len();
                pi.swap(i, j);
            }
        }
        if pi == s.pi {
            ctx.excluded("public-input edit left the vector unchanged");
            continue;
        }
        compare(ctx, "public input changed", &s.verifier, &s.rv, &s.proof, &pi, v3, Some(false))?;
    }
    // cross-circuit: the proof shown to the verifier of another circuit
    let other = subject(&c.ops2, &c.label, c.seed ^ 1)?;
    if other.verifier.to_bytes() != s.verifier.to_bytes() {
        if other.pi.len() == s.pi.len() {
            compare(ctx, "proof shown to another circuit's verifier", &other.verifier, &other.rv, &s.proof, &s.pi, v3, Some(false))?;
        } else {
            // length mismatch is refused before the equation
            let r = no_panic("verify-panic", || {
                other.verifier.verify(&Proof::from_slice(&s.proof).unwrap(), &s.pi)
            })?;
            ensure!(r.is_err(), "expected-reject-accepted", "public-input length mismatch accepted");
            ensure!(
                !refver::verify(&other.rv, &RefProof::parse(&s.proof).unwrap(), &s.pi, Version::V3).accept,
                "impl-rejects-reference-accepts",
                "reference accepts with wrong PI length"
            );
            ctx.eval("cross-circuit: PI length mismatch reject");
        }
    } else {
        ctx.excluded("cross-circuit pair compiled to the same verifier");
    }
    // same circuit, other label
    let mut l2 = c.label.clone();
    l2.push(7);
    let relabeled = subject(&c.ops, &l2, c.seed)?;
    compare(ctx, "proof shown to another label's verifier", &relabeled.verifier, &relabeled.rv, &s.proof, &s.pi, v3, Some(false))?;
    // repeated and shuffled calls on a shared verifier give the same verdicts
    for _ in 0..2 {
        let r = s.verifier.verify(&Proof::from_slice(&s.proof).unwrap(), &s.pi);
        ensure!(r.is_ok(), "verdict-depends-on-history", "honest proof rejected after other calls on the same verifier");
    }
    ctx.sample("subject", || {
        json!({"ops": s.program.ops.iter().map(|o| o.name()).collect::<Vec<_>>(), "public_inputs": s.pi.len(), "flips": c.flips.len(), "subs": c.subs.len()})
    });
    Ok(())
}

/// every single-bit flip of a few proofs
fn sweep(ctx: &Ctx) {
    let proofs = ctx.tier.pick(1usize, 6usize);
    for pidx in 0..proofs {
        let ops = vec![
            Op::Public(crate::fe::Fe(F::from(9u64 + pidx as u64))),
            Op::RangeBits { bits: 10, v: crate::fe::Fe(F::from(1000u64)) },
            Op::Logic { xor: pidx % 2 == 0, pairs: 4, a: 65000, b: 30000 },
            Op::PointWit(prog::PtSpec::sub(F::from(5u64))),
            Op::TorsionFree(60000),
            Op::AddPoint(60000, 60000),
            Op::MulGenerator { s: crate::fe::Fe(F::from(77u64)), gen: crate::fe::Fe(F::one()), z: crate::fe::Fe(F::from(5u64)) },
        ];
        let s = match subject(&ops, b"flip-sweep", ctx.seed ^ pidx as u64) {
            Ok(s) => s,
            Err(f) => {
                ctx.violation("differential", &f, json!({"sweep": pidx}));
                return;
            }
        };
        // the honest proofs of the sweep circuit (every gate family) first
        for (v, b) in [(PlonkVersion::V3, &s.proof), (PlonkVersion::V2, &s.proof_v2)] {
            if let Err(f) = compare(ctx, "sweep honest", &s.verifier, &s.rv, b, &s.pi, v, Some(true)) {
                ctx.violation("differential", &f, json!({"sweep_proof": pidx, "honest": format!("{v:?}")}));
                return;
            }
        }
        let versions: &[PlonkVersion] = if ctx.tier == Tier::Thorough {
            &[PlonkVersion::V3, PlonkVersion::V2, PlonkVersion::V1]
        } else {
            &[PlonkVersion::V3]
        };
        for &version in versions {
            let base = if version == PlonkVersion::V3 { &s.proof } else { &s.proof_v2 };
            let bits: Vec<usize> = (0..PROOF_LEN * 8).collect();
            let chunks: Vec<&[usize]> = bits.chunks(PROOF_LEN * 8 / 16).collect();
            std::thread::scope(|sc| {
                for ch in chunks {
                    let s = &s;
                    sc.spawn(move || {
                        for &bit in ch {
                            let mut b = base.clone();
                            b[bit / 8] ^= 1 << (bit % 8);
                            let class = if bit / 8 < 528 {
                                "sweep bit-flip commitment"
                            } else {
                                "sweep bit-flip evaluation"
                            };
                            // V1 never has an honest positive here; demand agreement only
                            let expect = if version == PlonkVersion::V1 { None } else { Some(false) };
                            if let Err(f) = compare(ctx, class, &s.verifier, &s.rv, &b, &s.pi, version, expect) {
                                ctx.violation("differential", &f, json!({"sweep_proof": pidx, "bit": bit, "version": format!("{version:?}")}));
                                return;
                            }
                        }
                    });
                }
            });
        }
    }
    ctx.label("exhaustive 8064-bit flip sweeps done");
}

pub fn props() -> Vec<(Box<dyn PropDyn>, u32, u32)> {
    vec![(
        Box::new(Prop::new("differential", case_strategy, check).shrink(60)),
        96,
        1200,
    )]
}

pub fn sweeps(ctx: &Ctx) {
    sweep(ctx);
}

pub fn describe(ctx: &Ctx) {
    ctx.rule("triples (verifier, proof, public inputs): honest V3/V2 proofs of generated circuits; each proof verified under V1/V2/V3; sampled and (sweep) ALL 8064 single-bit flips; each of the 26 fields replaced by the same field of another valid proof / another slot / a random valid element / identity-zero; public-input edits; the proof shown to another circuit's and another label's verifier; verifier rebuilt from bytes; repeated calls. Oracle: independent reference verifier must give the same verdict, and the verdict must be the one the class demands. non-trivial = the triple decodes and reaches the verification equation; distinct by hash of (proof bytes, label, version, public inputs)");
    ctx.assume("reference verifier (harness/src/refver.rs): merlin transcript + explicit equation + two separately computed pairings; trusted, and validated by accepting every honest proof (C01) and rejecting every mutation");
    ctx.assume("V1 accept side is populated by the independent reference prover (the crate has no V1 prover) for circuits of at most 128 rows");
}
