//! C14 — fixed-base multiplication returns [s]G for canonical s only.

use proptest::prelude::*;
use serde::{Deserialize, Serialize};
use serde_json::json;

use crate::curve::{self, Pt};
use crate::ensure;
use crate::fe::{f_int, f_of, f_pow2, fe_random, fe_short, Fe, F, RJ_MOD, R_MOD, U256};
use crate::gadget::{self, Gad};
use crate::prog::Op;
use crate::runner::{no_panic, Ctx, Fail, PResult, Prop, PropDyn, Tier};

#[derive(Debug, Clone, Serialize, Deserialize)]
pub struct Case {
    pub gen: Fe,
    pub sclass: u8,
    pub s: Fe,
    pub pos: u16,
    pub rnd: Vec<i8>,
    pub prove: bool,
    pub seed: u64,
    /// Z of the extended representation the generator is handed over in
    #[serde(default = "crate::prog::fe_one")]
    pub z: Fe,
}

fn case_strategy(_t: Tier) -> BoxedStrategy<Case> {
    (
        prop_oneof![2 => Just(Fe(F::one())), 1 => Just(Fe(F::from(2u64))), 3 => fe_random()],
        0u8..10,
        fe_random(),
        any::<u16>(),
        proptest::collection::vec(-1i8..=1, 8),
        proptest::bool::weighted(0.05),
        any::<u64>(),
        prop_oneof![2 => Just(crate::prog::fe_one()), 1 => Just(Fe(F::from(2u64))), 1 => Just(Fe(-F::one())), 2 => crate::fe::fe_nonzero()],
    )
        .prop_map(|(gen, sclass, s, pos, rnd, prove, seed, z)| Case {
            gen,
            sclass,
            s,
            pos,
            rnd,
            prove,
            seed,
            z,
        })
        .boxed()
}

pub fn scalar_of(class: u8, s: &F) -> F {
    match class % 10 {
        0 => F::zero(),
        1 => F::one(),
        2 => f_of(RJ_MOD.sub(U256::ONE).0),
        3 => f_of(RJ_MOD),
        4 => f_of(RJ_MOD.add(U256::ONE).0),
        5 => f_pow2(252) - F::one(),
        6 => -F::one(),
        7 => *s,
        8 => F::from(s.to_bytes()[0] as u64 + 2),
        // random canonical
        _ => {
            let mut u = f_int(s).low_bits(252);
            while !u.lt(RJ_MOD) {
                u = u.shr(1);
            }
            f_of(u)
        }
    }
}

/// width-2 non-adjacent form of n, little endian, 256 digits
pub fn naf(n: U256) -> Option<[i8; 256]> {
    let mut d = [0i8; 256];
    let mut n = n;
    let mut i = 0;
    while n != U256::ZERO {
        if i >= 256 {
            return None;
        }
        if n.bit(0) {
            if n.bit(1) {
                d[i] = -1;
                n = n.add(U256::ONE).0;
            } else {
                d[i] = 1;
                n = n.sub(U256::ONE).0;
            }
        }
        n = n.shr(1);
        i += 1;
    }
    Some(d)
}

pub fn binary(n: U256) -> [i8; 256] {
    let mut d = [0i8; 256];
    for (i, x) in d.iter_mut().enumerate() {
        *x = n.bit(i as u32) as i8;
    }
    d
}

/// integer value of a digit vector if it is non-negative and fits
fn digits_value_mod_r(d: &[i8; 256]) -> F {
    let mut acc = F::zero();
    for x in d.iter().rev() {
        acc = acc + acc;
        match x {
            1 => acc += F::one(),
            -1 => acc -= F::one(),
            _ => {}
        }
    }
    acc
}

fn digits_point(d: &[i8; 256], g: &Pt) -> Pt {
    let mut acc = curve::identity();
    for x in d.iter().rev() {
        acc = curve::double(&acc).unwrap();
        match x {
            1 => acc = curve::add(&acc, g).unwrap(),
            -1 => acc = curve::add(&acc, &curve::neg(g)).unwrap(),
            _ => {}
        }
    }
    acc
}

fn gen_k(c: &Case) -> F {
    let mut u = f_int(&c.gen.0);
    while !u.lt(RJ_MOD) {
        u = u.sub(RJ_MOD).0;
    }
    if u == U256::ZERO {
        F::one()
    } else {
        f_of(u)
    }
}

fn check(ctx: &Ctx, c: &Case) -> PResult {
    let s = scalar_of(c.sclass, &c.s.0);
    let k = gen_k(c);
    let g_pt = curve::gmul(&k);
    let canonical = f_int(&s).lt(RJ_MOD);
    let cls = format!("mul_generator scalar {}{}", if canonical { "canonical" } else { "non-canonical" }, if c.z.0 == F::one() { "" } else { ", generator with Z != 1" });
    ctx.eval(&cls);
    let want = curve::mul_f(&s, &g_pt).unwrap();

    // public entry point
    let api = no_panic("mul-generator-panic", || {
        Gad::build(vec![Op::MulGenerator { s: Fe(s), gen: Fe(k), z: c.z }], false)
    })?;
    match (&api, canonical) {
        (Ok(g), true) => {
            let last = g.trace.pts.len() - 1;
            let got = (g.wit[g.trace.pts[last].x().index()], g.wit[g.trace.pts[last].y().index()]);
            ensure!(got == want, "mul-generator-value", "component_mul_generator({}) returned a point different from [s]G", fe_short(&s));
            let unsat = g.honest_unsat();
            ensure!(unsat.is_empty(), "mul-generator-unsatisfiable", "canonical scalar {}: {:?}", fe_short(&s), unsat.first());
            if c.prove {
                gadget::cross_check(g, &g.wit, c.seed, "component_mul_generator")?;
                ctx.label("cross-checked with the real prover");
            }
        }
        (Err(_), false) => {}
        (Ok(_), false) => {
            return Err(Fail::new("mul-generator-accepts-non-canonical-scalar", format!("scalar {} >= r_J accepted by the entry point", fe_short(&s))))
        }
        (Err(e), _) => {
            return Err(Fail::new("mul-generator-wrong-error", format!("scalar {} (canonical={canonical}): {e:?}", fe_short(&s))))
        }
    }

    // digit vectors through the seam (any scalar witness)
    let si = f_int(&s);
    let mut cands: Vec<(&str, [i8; 256])> = Vec::new();
    if let Some(d) = naf(si) {
        cands.push(("NAF of s", d));
    }
    cands.push(("binary digits of s", binary(si)));
    // 0 1 -> 1 -1 rewriting of the binary digits at one place
    {
        let mut d = binary(si);
        let i = c.pos as usize % 250;
        if d[i] == 1 && d[i + 1] == 0 {
            d[i] = -1;
            d[i + 1] = 1;
            cands.push(("binary digits with a 01 -> 1(-1) rewrite", d));
        }
    }
    for (name, add) in [("s + r_J", RJ_MOD), ("s + q", R_MOD)] {
        let (u, carry) = si.add(add);
        if !carry {
            if let Some(d) = naf(u) {
                cands.push((if name == "s + r_J" { "NAF of s + r_J" } else { "NAF of s + q" }, d));
            }
            cands.push((if name == "s + r_J" { "binary digits of s + r_J" } else { "binary digits of s + q" }, binary(u)));
        }
    }
    if canonical {
        // digits of s - r_J (negative): -(r_J - s)
        let m = RJ_MOD.sub(si).0;
        let mut d = binary(m);
        for x in d.iter_mut() {
            *x = -*x;
        }
        cands.push(("negated binary digits of r_J - s", d));
    }
    cands.push(("all zero", [0i8; 256]));
    {
        let mut d = [0i8; 256];
        for (i, x) in d.iter_mut().enumerate() {
            *x = c.rnd[(i * 7 + c.pos as usize) % c.rnd.len()];
        }
        cands.push(("random digits", d));
        // non-zero leading digits over an otherwise honest encoding
        let mut d = binary(si);
        d[255] = 1;
        d[253] = -1;
        cands.push(("non-zero leading digits", d));
    }
    let mut twin_layout_checked = false;
    for (name, d) in cands {
        let twin = no_panic("fixed-base-seam-panic", || {
            Gad::build(vec![Op::FixedSeam { s: Fe(s), gen: Fe(k), digits: d.to_vec(), z: c.z }], false)
        })?
        .map_err(|e| Fail::new("fixed-base-seam-error", format!("{e:?}")))?;
        if let (Ok(g), false) = (&api, twin_layout_checked) {
            if g.layout != twin.layout {
                return Err(Fail::new(
                    "mul-generator-shape-depends-on-values",
                    format!("seam twin layout differs from the component's: {:?}", g.layout.first_diff(&twin.layout)),
                ));
            }
            twin_layout_checked = true;
        }
        ctx.add_evals(1);
        ctx.label(&format!("digits: {name}"));
        let sat = twin.honest_unsat().is_empty();
        let encodes_s = digits_value_mod_r(&d) == s;
        let pt = digits_point(&d, &g_pt);
        if sat {
            let ok = canonical && pt == want;
            if !ok {
                let real = twin.prove_assignment(&twin.wit, c.seed)?;
                return Err(Fail::new(
                    if !canonical { "fixed-base-non-canonical-scalar-satisfiable" } else { "fixed-base-wrong-point-satisfiable" },
                    format!(
                        "scalar {} (canonical={canonical}), digits '{name}' (encode s mod q: {encodes_s}): every row is satisfied and the returned point {} [s]G (real prover+verifier: {real:?})",
                        fe_short(&s), if pt == want { "equals" } else { "differs from" }
                    ),
                ));
            }
            ctx.label("satisfying digit vector (canonical scalar, right point)");
        } else if canonical && name == "NAF of s" {
            return Err(Fail::new("fixed-base-honest-digits-unsatisfiable", format!("NAF of canonical scalar {} is rejected: {:?}", fe_short(&s), twin.honest_unsat().first())));
        }
        // forged single wires on this twin: a digit of 2, xy_alpha off
        if name == "NAF of s" && canonical {
            let (start, end) = twin.op_wits(0);
            // allocation tail: ... (acc_x, acc_y, acc_bit, xy_alpha) x 256, acc_x, acc_y, last_bit
            let rounds = end - 3 - 4 * 256;
            let i = c.pos as usize % 256;
            for (fname, off, delta) in [("scalar accumulator +1", 2usize, F::one()), ("xy_alpha +1", 3, F::one()), ("acc_x +1", 0, F::one()), ("acc_y +1", 1, F::one())] {
                let idx = rounds + 4 * i + off;
                if idx < start || idx >= end {
                    continue;
                }
                let asg = twin.with(&[(idx, twin.wit[idx] + delta)]);
                if gadget::maybe_cross(&twin, &asg, c.seed, off + i, 6, "fixed-base forged wire")? {
                    ctx.label("forged wire cross-checked with the real prover");
                }
                ctx.add_evals(1);
                ctx.label(&format!("forged wire: {fname}"));
                let last = twin.trace.pts.len() - 1;
                let got = (asg[twin.trace.pts[last].x().index()], asg[twin.trace.pts[last].y().index()]);
                if twin.eval(&asg).is_empty() && got != want {
                    return Err(Fail::new("fixed-base-forged-wire-accepted", format!("'{fname}' at round {i} satisfies every row with another point")));
                }
            }
        }
    }
    // joint forgeries on one round of the honest twin whose residuals cancel if
    // the widget gave two of its four identities the same weight: (x step, y
    // step) off by (e, -e) and (helper wire, x step) off by (e, -e), the
    // accumulator chain continued from the forged point. The reference
    // evaluator rejects them (two components of one row); the REAL prover must
    // reject them too.
    if canonical && (c.prove || c.seed % 16 == 0) {
        if let Some(d) = naf(si) {
            let twin = Gad::build(vec![Op::FixedSeam { s: Fe(s), gen: Fe(k), digits: d.to_vec(), z: c.z }], false)
                .map_err(|e| Fail::new("fixed-base-seam-error", format!("{e:?}")))?;
            let rows: Vec<usize> = (0..twin.layout.rows.len()).filter(|i| twin.layout.rows[*i].sel[spec_q_fixed()] != F::zero()).collect();
            if rows.len() >= 8 {
                for kind in 0..2u8 {
                    let ri = rows[c.pos as usize % (rows.len() - 2)];
                    let mut asg = twin.wit.clone();
                    let e = c.s.0 + F::one();
                    if forge_round(&twin, &mut asg, ri, kind, e).is_none() {
                        continue;
                    }
                    // continue the chain from the forged accumulators
                    for r in rows.iter().filter(|r| **r > ri) {
                        if forge_round(&twin, &mut asg, *r, 2, F::zero()).is_none() {
                            break;
                        }
                    }
                    let unsat = twin.eval(&asg);
                    ctx.add_evals(1);
                    ctx.label(if kind == 0 { "joint forgery: x and y steps off by (e, -e)" } else { "joint forgery: helper wire and x step off by (e, -e)" });
                    if unsat.is_empty() {
                        return Err(Fail::new("fixed-base-forged-wire-accepted", "a joint forgery of one round satisfies every row"));
                    }
                    if unsat.iter().all(|u| u.row == ri && u.family == "fixed-base") && unsat.len() == 2 {
                        gadget::cross_check(&twin, &asg, c.seed, "fixed-base joint forgery (two identities of one round off by cancelling amounts)")?;
                        ctx.label("joint forgery cross-checked with the real prover");
                    } else {
                        ctx.label("joint forgery: more than the intended pair broken (not cross-checked)");
                    }
                }
            }
        }
    }
    ctx.nontrivial_json(&(c.gen, c.sclass, c.s, c.pos));
    ctx.sample(&cls, || json!({"scalar": fe_short(&s), "generator_k": fe_short(&k), "canonical": canonical}));
    Ok(())
}

fn spec_q_fixed() -> usize {
    crate::spec::Q_FIXED
}

/// Rewrite the accumulators that fixed-base row `ri` hands to its successor.
/// kind 0: x step + e, y step - e; kind 1: helper wire forged by e and the x
/// step compensating; kind 2: the honest step (continuing the chain).
fn forge_round(g: &Gad, asg: &mut [F], ri: usize, kind: u8, e: F) -> Option<()> {
    use crate::spec::{Q_C, Q_L, Q_R};
    let r = &g.layout.rows[ri];
    let nx = g.layout.rows.get(ri + 1)?;
    let (a, b, d) = (asg[r.w[0]], asg[r.w[1]], asg[r.w[3]]);
    let d_n = asg[nx.w[3]];
    let digit = d_n - d - d;
    let (x_beta, y_beta, q_c) = (r.sel[Q_L], r.sel[Q_R], r.sel[Q_C]);
    let one = F::one();
    let mut xy = digit * q_c;
    // residuals: helper = digit*q_c - xy ; x = a_n (1 + t) - rhs_x ; y = b_n (1 - t) - rhs_y
    let (mut ex, mut ey) = (F::zero(), F::zero());
    match kind {
        0 => {
            ex = e;
            ey = -e;
        }
        1 => {
            xy -= e; // helper residual = e
            ex = -e;
        }
        _ => {
            xy = asg[r.w[2]];
        }
    }
    if kind != 2 {
        asg[r.w[2]] = xy;
    }
    let y_alpha = digit.square() * (y_beta - one) + one;
    let x_alpha = digit * x_beta;
    let t = xy * a * b * dusk_jubjub::EDWARDS_D;
    let a_n = (a * y_alpha + b * x_alpha + ex) * Option::<F>::from((one + t).invert())?;
    let b_n = (b * y_alpha + a * x_alpha + ey) * Option::<F>::from((one - t).invert())?;
    asg[nx.w[0]] = a_n;
    asg[nx.w[1]] = b_n;
    Some(())
}

pub fn props() -> Vec<(Box<dyn PropDyn>, u32, u32)> {
    vec![(Box::new(Prop::new("fixed_base", case_strategy, check).shrink(80)), 1200, 12000)]
}

pub fn describe(ctx: &Ctx) {
    ctx.rule("cases: generators [k]G (k in {1, 2, random}) handed over normalised (Z = 1) or in a consistent extended representation with Z in {2, -1, random} x scalar witnesses {0, 1, r_J-1, r_J, r_J+1, 2^252-1, q-1, random field element, small, random canonical}; signed-digit vectors through the fixed-base seam {NAF of s, binary digits, 01->1(-1) rewrite, NAF/binary of s+r_J and s+q, negated digits of r_J-s, all zero, random digits, non-zero leading digits} plus forged single wires (scalar accumulator, xy_alpha, acc_x, acc_y) on the honest twin, and joint forgeries of one round whose two residuals cancel ((x step, y step), (helper wire, x step)) with the chain continued from the forged point - these are given to the REAL prover, which must reject them. Oracle: entry point Ok iff s < r_J and then returned = [s]G (harness affine arithmetic) and satisfiable; through the seam any satisfied digit vector requires s canonical and the digits' point = [s]G; seam twin layout = component layout. non-trivial = every case; distinct by case");
}
