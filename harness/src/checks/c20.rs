//! C20 — KZG commitments and openings are exact.

use dusk_bls12_381::{G1Affine, G1Projective, G2Affine, G2Projective};
use dusk_plonk::prelude::PublicParameters;
use dusk_plonk::verif as k;
use proptest::prelude::*;
use rand_chacha::ChaCha20Rng;
use rand_core::SeedableRng;
use serde::{Deserialize, Serialize};
use serde_json::json;

use crate::checks::c19::VecSpec;
use crate::ensure;
use crate::fe::{f_stream, fe_any, pick, Fe, F};
use crate::naive;
use crate::refprover::{self, Srs};
use crate::runner::{no_panic, Ctx, Fail, PResult, Prop, PropDyn, Tier};

fn vecspec() -> impl Strategy<Value = VecSpec> {
    (any::<u64>(), 0u8..5, proptest::collection::vec((any::<u16>(), fe_any()), 0..3))
        .prop_map(|(seed, kind, explicit)| VecSpec { seed, kind, explicit })
}

// ------------------------------------------------------------ SRS + trim

#[derive(Debug, Clone, Serialize, Deserialize)]
pub struct SrsCase {
    pub degree: u16,
    pub seed: u64,
    pub trim: u16,
    pub full: bool,
}

fn srs_case(t: Tier) -> BoxedStrategy<SrsCase> {
    let maxd = t.pick(160u16, 512u16);
    (prop_oneof![2 => 1u16..=16, 3 => 1u16..=maxd], any::<u64>(), any::<u16>(), proptest::bool::weighted(0.2))
        .prop_map(|(degree, seed, trim, full)| SrsCase { degree, seed, trim, full })
        .boxed()
}

fn pairing_eq(a: &G1Projective, q1: &G2Affine, b: &G1Projective, q2: &G2Affine) -> bool {
    dusk_bls12_381::pairing(&G1Affine::from(*a), q1) == dusk_bls12_381::pairing(&G1Affine::from(*b), q2)
}

fn check_srs(ctx: &Ctx, c: &SrsCase) -> PResult {
    let n = c.degree.max(1) as usize;
    let mut rng = ChaCha20Rng::seed_from_u64(c.seed);
    let pp = no_panic("setup-panic", || PublicParameters::setup(n, &mut rng))?
        .map_err(|e| Fail::new("setup-error", format!("{e:?}")))?;
    ctx.eval(&format!("setup degree {}", if n <= 16 { "1-16" } else { "17+" }));
    ensure!(pp.max_degree() == n + 6, "srs-max-degree", "max_degree {} for setup({n})", pp.max_degree());
    let bytes = pp.to_var_bytes();
    ensure!(bytes.len() == 240 + 48 * (n + 7), "srs-length", "serialized length {} for degree {n}", bytes.len());
    let srs = refprover::parse_srs(&bytes, n + 7).map_err(|e| Fail::new("srs-parse", e))?;
    ensure!(srs.powers.len() == n + 7, "srs-length", "powers {}", srs.powers.len());
    ensure!(
        !bool::from(srs.g.is_identity()) && !bool::from(srs.h.is_identity()) && !bool::from(srs.x_h.is_identity()),
        "srs-identity-element",
        "g, h or x*h is the identity"
    );
    ensure!(srs.powers[0] == srs.g, "srs-first-power", "first power is not g");
    // consecutive powers: e(x^i g, h) = e(x^(i-1) g, x h)
    if c.full {
        for i in 1..srs.powers.len() {
            ensure!(
                pairing_eq(&srs.powers[i].into(), &srs.h, &srs.powers[i - 1].into(), &srs.x_h),
                "srs-powers-inconsistent",
                "power {i} is not x times power {}",
                i - 1
            );
        }
        ctx.label("full power sweep");
    } else {
        let r = f_stream(c.seed ^ 0x20, srs.powers.len());
        let mut a = G1Projective::identity();
        let mut b = G1Projective::identity();
        for i in 1..srs.powers.len() {
            a += G1Projective::from(srs.powers[i]) * r[i];
            b += G1Projective::from(srs.powers[i - 1]) * r[i];
        }
        ensure!(pairing_eq(&a, &srs.h, &b, &srs.x_h), "srs-powers-inconsistent", "random linear combination of consecutive-power relations fails (degree {n})");
    }
    // trimming keeps exactly the prefix t + 7 and errors beyond capacity
    let t = pick(c.trim, n + 8);
    let r = no_panic("trim-panic", || k::kzg_trim(&pp, t))?;
    match r {
        Ok((ck, ok)) => {
            ensure!(t <= n, "trim-beyond-capacity-accepted", "trim({t}) accepted for setup({n})");
            ensure!(ck.len() == 48 * (t + 7), "trim-length", "trim({t}) kept {} points", ck.len() / 48);
            ensure!(ck[..] == bytes[240..240 + 48 * (t + 7)], "trim-not-a-prefix", "trim({t}) is not a prefix of the powers");
            ensure!(ok[..] == bytes[..240], "trim-opening-key", "opening key changed by trim");
            ctx.label("trim within capacity");
        }
        Err(e) => {
            ensure!(t > n, "trim-within-capacity-refused", "trim({t}) refused for setup({n}): {e:?}");
            let _ = e;
            ctx.label("trim beyond capacity refused");
        }
    }
    if n >= 2 {
        ctx.nontrivial_json(c);
        ctx.sample("srs", || json!({"degree": n, "trim": t}));
    }
    Ok(())
}

// ------------------------------------------------------------ commitments

#[derive(Debug, Clone, Serialize, Deserialize)]
pub struct CommitCase {
    pub degree: u8,
    pub trim: u16,
    pub len_delta: i8,
    pub p: VecSpec,
    pub q: VecSpec,
    pub scalar: Fe,
}

fn commit_case(_t: Tier) -> BoxedStrategy<CommitCase> {
    (2u8..=64, any::<u16>(), -3i8..=3, vecspec(), vecspec(), fe_any())
        .prop_map(|(degree, trim, len_delta, p, q, scalar)| CommitCase { degree, trim, len_delta, p, q, scalar })
        .boxed()
}

fn shared_pp(n: usize) -> (std::sync::Arc<PublicParameters>, std::sync::Arc<Srs>) {
    let pp = crate::sys::pp(n);
    let srs = refprover::srs_for(n, &pp, n + 7);
    (pp, srs)
}

fn check_commit(ctx: &Ctx, c: &CommitCase) -> PResult {
    let n = c.degree as usize;
    let (pp, srs) = shared_pp(n);
    let t = pick(c.trim, n + 1);
    let key_len = t + 7; // powers kept: degree t + 6
    // polynomial length around the key size
    let len = (key_len as i64 + c.len_delta as i64).max(0) as usize;
    let pv = c.p.expand(len);
    let qv = c.q.expand(len.saturating_sub(1).min(key_len));
    let p = k::VerifPoly::new(pv.clone());
    let q = k::VerifPoly::new(qv.clone());
    let ptrim = naive::trim(pv.clone());
    let cls = format!(
        "commit length {} key",
        if ptrim.len() > key_len { "beyond" } else if ptrim.len() == key_len { "at" } else { "below" }
    );
    ctx.eval(&cls);
    let cp = no_panic("commit-panic", || k::kzg_commit(&pp, t, &p))?;
    if ptrim.len() > key_len {
        ensure!(
            cp.is_err(),
            "commit-beyond-degree",
            "polynomial of degree {} committed with a key of degree {}: {cp:?}",
            ptrim.len() - 1,
            key_len - 1
        );
        ctx.nontrivial_json(c);
        return Ok(());
    }
    let cp = cp.map_err(|e| Fail::new("commit-refused", format!("degree {} key degree {}: {e:?}", ptrim.len().saturating_sub(1), key_len - 1)))?;
    // linear image of the coefficient vector: own MSM
    let want = refprover::commit(&srs, &pv).ok_or_else(|| Fail::new("oracle", "srs too short"))?;
    ensure!(cp == want, "commit-not-msm", "commitment differs from sum p_i [x^i]g (len {})", ptrim.len());
    if ptrim.is_empty() {
        ensure!(bool::from(cp.is_identity()), "commit-zero", "commitment to the zero polynomial is not the identity");
        ctx.label("zero polynomial");
    }
    // additivity and homogeneity
    let cq = k::kzg_commit(&pp, t, &q).map_err(|e| Fail::new("commit-refused", format!("{e:?}")))?;
    let sum = p.add(&q);
    let cs = k::kzg_commit(&pp, t, &sum).map_err(|e| Fail::new("commit-refused", format!("{e:?}")))?;
    ensure!(
        G1Affine::from(G1Projective::from(cp) + G1Projective::from(cq)) == cs,
        "commit-not-additive",
        "commit(p+q) != commit(p)+commit(q)"
    );
    let sc = p.scale(&c.scalar.0);
    let csc = k::kzg_commit(&pp, t, &sc).map_err(|e| Fail::new("commit-refused", format!("{e:?}")))?;
    ensure!(G1Affine::from(G1Projective::from(cp) * c.scalar.0) == csc, "commit-not-homogeneous", "commit(c p) != c commit(p)");
    if ptrim.len() >= 2 {
        ctx.nontrivial_json(c);
        ctx.sample(&cls, || json!({"setup": n, "trim": t, "poly_len": ptrim.len()}));
    }
    Ok(())
}

// ------------------------------------------------------------ openings

#[derive(Debug, Clone, Serialize, Deserialize)]
pub struct OpenCase {
    pub degree: u8,
    pub polys: Vec<(u8, VecSpec)>,
    pub points: Vec<Fe>,
    pub v: Fe,
    /// (entry, kind) of the one wrong entry; kind: 0 evaluation, 1 witness,
    /// 2 commitment of another polynomial, 3 swapped with the next entry
    pub wrong: Option<(u16, u8)>,
    pub shape: u8,
}

fn open_case(_t: Tier) -> BoxedStrategy<OpenCase> {
    (
        8u8..=48,
        proptest::collection::vec((1u8..=40, vecspec()), 1..9),
        proptest::collection::vec(
            prop_oneof![3 => fe_any(), 1 => Just(Fe(F::zero())), 1 => Just(Fe(F::one())), 1 => (0u64..8).prop_map(|i| Fe(naive::pow(naive::omega(3), i)))],
            8,
        ),
        fe_any(),
        proptest::option::weighted(0.65, (any::<u16>(), 0u8..8)),
        0u8..8,
    )
        .prop_map(|(degree, polys, points, v, wrong, shape)| OpenCase { degree, polys, points, v, wrong, shape })
        .boxed()
}

/// independent single-opening check: e(C - y g, h) = e(W, x h - z h)
fn opening_true(srs: &Srs, z: &F, w: &G1Affine, y: &F, c: &G1Affine) -> bool {
    let lhs = G1Projective::from(*c) - G1Projective::from(srs.g) * *y;
    let rhs_g2 = G2Affine::from(G2Projective::from(srs.x_h) - G2Projective::from(srs.h) * *z);
    dusk_bls12_381::pairing(&G1Affine::from(lhs), &srs.h) == dusk_bls12_381::pairing(w, &rhs_g2)
}

fn check_open(ctx: &Ctx, c: &OpenCase) -> PResult {
    let n = c.degree as usize;
    let (pp, srs) = shared_pp(n);
    let polys: Vec<Vec<F>> = c.polys.iter().map(|(l, s)| s.expand((*l as usize).min(n + 6))).collect();
    let vps: Vec<k::VerifPoly> = polys.iter().map(|p| k::VerifPoly::new(p.clone())).collect();
    let comms: Vec<G1Affine> = polys.iter().map(|p| refprover::commit(&srs, p).unwrap()).collect();
    let m = polys.len();
    let aggregated = c.shape % 2 == 1 && m >= 2;
    // build the openings
    let mut points: Vec<F> = Vec::new();
    let mut entries: Vec<k::VerifOpening> = Vec::new();
    if aggregated {
        // all polynomials at one point, flattened with the challenge v
        let z = c.points[0].0;
        let refs: Vec<&k::VerifPoly> = vps.iter().collect();
        let wit = no_panic("aggregate-witness-panic", || k::kzg_aggregate_witness(&refs, &z, &c.v.0))?;
        // oracle: quotient of sum v^i p_i by (X - z)
        let mut agg: Vec<F> = Vec::new();
        let mut vp = F::one();
        for p in &polys {
            agg = naive::poly_add(&agg, &naive::poly_scale(p, &vp));
            vp *= c.v.0;
        }
        let (quot, _) = naive::div_linear(&agg, &z);
        ensure!(naive::trim(wit.coeffs()) == quot, "aggregate-witness", "aggregate witness is not the quotient of the v-combination by (X - z)");
        let wcomm = refprover::commit(&srs, &quot).unwrap();
        let parts: Vec<(F, G1Affine)> = polys.iter().zip(&comms).map(|(p, cm)| (naive::horner(p, &z), *cm)).collect();
        let flat = no_panic("flatten-panic", || k::kzg_flatten(wcomm, &parts, &c.v.0))?;
        // oracle for flatten: linear combination
        let mut ey = F::zero();
        let mut ec = G1Projective::identity();
        let mut vp = F::one();
        for (y, cm) in &parts {
            ey += *y * vp;
            ec += G1Projective::from(*cm) * vp;
            vp *= c.v.0;
        }
        ensure!(flat.0 == wcomm && flat.1 == ey && flat.2 == G1Affine::from(ec), "flatten-not-linear-combination", "flatten differs from the v-linear combination");
        points.push(z);
        entries.push(flat);
        ctx.label("aggregated opening (several polynomials at one point)");
    } else {
        for (i, p) in polys.iter().enumerate() {
            let z = c.points[i % c.points.len()].0;
            let (quot, rem) = naive::div_linear(p, &z);
            let w = refprover::commit(&srs, &quot).unwrap();
            points.push(z);
            entries.push((w, rem, comms[i]));
        }
    }
    // one wrong entry somewhere
    let mut wrong_kind = "none";
    if let Some((pos, kind)) = c.wrong {
        let i = pick(pos, entries.len());
        match kind % 8 {
            0 => {
                entries[i].1 += F::one();
                wrong_kind = "wrong evaluation";
            }
            1 => {
                entries[i].0 = G1Affine::from(G1Projective::from(entries[i].0) + G1Projective::from(srs.g));
                wrong_kind = "wrong witness";
            }
            2 => {
                entries[i].2 = G1Affine::from(G1Projective::from(entries[i].2) + G1Projective::from(srs.powers[1]));
                wrong_kind = "commitment of another polynomial";
            }
            3 => {
                if entries.len() >= 2 {
                    let j = (i + 1) % entries.len();
                    let (wi, wj) = (entries[i].0, entries[j].0);
                    entries[i].0 = wj;
                    entries[j].0 = wi;
                    wrong_kind = "witnesses swapped";
                }
            }
            // two entries wrong by amounts that cancel when the batch gives
            // them the same weight (each is false on its own)
            4 => {
                if entries.len() >= 2 {
                    let j = (i + 1) % entries.len();
                    let (yi, yj) = (entries[i].1, entries[j].1);
                    entries[i].1 = yj;
                    entries[j].1 = yi;
                    wrong_kind = "evaluations swapped between two entries";
                }
            }
            5 => {
                if entries.len() >= 2 {
                    let j = (i + 1) % entries.len();
                    let d = c.v.0 + F::one();
                    entries[i].1 += d;
                    entries[j].1 -= d;
                    wrong_kind = "two evaluations off by (d, -d)";
                }
            }
            6 => {
                if entries.len() >= 2 {
                    let j = (i + 1) % entries.len();
                    let d = G1Projective::from(srs.powers[1]) * (c.v.0 + F::one());
                    entries[i].2 = G1Affine::from(G1Projective::from(entries[i].2) + d);
                    entries[j].2 = G1Affine::from(G1Projective::from(entries[j].2) - d);
                    wrong_kind = "two commitments off by (D, -D)";
                }
            }
            _ => {
                if entries.len() >= 2 {
                    // first and last entry (weights 1 and u^(k-1))
                    let j = entries.len() - 1;
                    let d = c.v.0 + F::from(2u64);
                    entries[0].1 += d;
                    entries[j].1 -= d;
                    wrong_kind = "first and last evaluation off by (d, -d)";
                }
            }
        }
    }
    // expected verdict: every entry individually true
    let truth: Vec<bool> = points.iter().zip(&entries).map(|(z, (w, y, cm))| opening_true(&srs, z, w, y, cm)).collect();
    let expect_ok = truth.iter().all(|t| *t);
    let cls = format!("batch of {} ({}) {}", if entries.len() == 1 { "1" } else { "2+" }, wrong_kind, if expect_ok { "all true" } else { "some false" });
    ctx.eval(&cls);
    let r = no_panic("batch-check-panic", || k::kzg_batch_check(&pp, &points, &entries, b"c20"))?;
    ensure!(
        r.is_ok() == expect_ok,
        if expect_ok { "batch-check-rejects-true-openings" } else { "batch-check-accepts-false-opening" },
        "batch_check = {r:?} although individual openings are {truth:?} ({wrong_kind})"
    );
    // shapes that must be refused
    if c.shape >= 6 {
        let r = no_panic("batch-check-panic", || k::kzg_batch_check(&pp, &[], &[], b"c20"))?;
        ensure!(r.is_err(), "batch-check-empty-accepted", "empty batch accepted");
        let r = no_panic("batch-check-panic", || k::kzg_batch_check(&pp, &points[..points.len() - 1], &entries, b"c20"))?;
        ensure!(r.is_err(), "batch-check-length-mismatch-accepted", "mismatched lengths accepted");
        // more points than proofs: nothing is opened at the surplus points
        let mut more = points.clone();
        more.push(c.v.0 + F::one());
        let r = no_panic("batch-check-panic", || k::kzg_batch_check(&pp, &more, &entries, b"c20"))?;
        ensure!(r.is_err(), "batch-check-length-mismatch-accepted", "a batch with more points than proofs was accepted");
        let mut twice = points.clone();
        twice.extend(points.iter().cloned());
        let r = no_panic("batch-check-panic", || k::kzg_batch_check(&pp, &twice, &entries, b"c20"))?;
        ensure!(r.is_err(), "batch-check-length-mismatch-accepted", "a batch with twice as many points as proofs was accepted");
        ctx.label("empty / mismatched batch refused");
    }
    if polys.iter().any(|p| naive::trim(p.clone()).len() >= 2) && (entries.len() >= 2 || !expect_ok) {
        ctx.nontrivial_json(c);
        ctx.sample(&cls, || json!({"entries": entries.len(), "aggregated": aggregated, "wrong": wrong_kind, "truth": truth}));
    }
    Ok(())
}

pub fn props() -> Vec<(Box<dyn PropDyn>, u32, u32)> {
    vec![
        (Box::new(Prop::new("srs", srs_case, check_srs).shrink(100)), 400, 4000),
        (Box::new(Prop::new("commit", commit_case, check_commit).shrink(300)), 4000, 40000),
        (Box::new(Prop::new("open", open_case, check_open).shrink(200)), 2400, 30000),
    ]
}

pub fn describe(ctx: &Ctx) {
    ctx.rule("cases: setup(N) for N 1..160 (512 thorough) with seeded secrets and every trim size 0..N+7; polynomials of length around the key size (key length -3..+3) incl. the zero polynomial; 1..8 polynomials opened at points incl. 0, 1 and domain elements, either aggregated at one point (flatten) or as a batch over several points, with zero or ONE wrong entry at a generated position (wrong evaluation / wrong witness / commitment of another polynomial / swapped witnesses) or TWO wrong entries whose errors cancel under equal batch weights (evaluations swapped, evaluations off by (d,-d), commitments off by (D,-D), first and last entry), empty batch, length mismatch in both directions (fewer and more points than proofs). Oracle: pairing relations on the parsed public bytes e([x^i]g,h)=e([x^(i-1)]g,xh); trim = prefix t+7 or TruncatedDegreeTooLarge; commit = own MSM, additive, homogeneous, identity for zero, PolynomialDegreeTooLarge beyond the key; batch_check Ok iff every entry passes an independent e(C - y g, h) = e(W, xh - zh) check. non-trivial = degree >= 2 (srs), polynomial of degree >= 1 (commit), batch >= 2 or a wrong entry (openings); distinct by case");
    ctx.assume("dusk-bls12_381 pairing and group arithmetic are trusted; batch verification soundness holds up to the negligible probability of the random linear combination");
}
