//! C17 — checked decoders are total, bounded and admit only well-formed data.

use std::sync::OnceLock;

use dusk_bls12_381::{G1Affine, G2Affine};
use dusk_bytes::{DeserializableSlice, Serializable};
use dusk_plonk::prelude::{Compiler, Proof, Prover, PublicParameters, Verifier};
use proptest::prelude::*;
use serde_json::json;

use crate::alloc_count::measure;
use crate::ensure;
use crate::fe::F;
use crate::mutate::{self, Edit, Script, TARGETS, T_PP, T_PROOF, T_PROVER, T_VERIFIER};
use crate::prog::ProgramCircuit;
use crate::runner::{no_panic, Ctx, Fail, PResult, Prop, PropDyn, Tier};
use crate::sys;

fn edit_strategy(depth: u32) -> BoxedStrategy<Edit> {
    let leaf = prop_oneof![
        4 => any::<u32>().prop_map(Edit::Flip),
        4 => (0u16..80, 0u8..10, any::<bool>()).prop_map(|(at, val, be)| Edit::SetU64 { at, val, be }),
        1 => any::<u32>().prop_map(Edit::Truncate),
        2 => any::<u16>().prop_map(Edit::TruncateAt),
        1 => (any::<u16>(), any::<u8>()).prop_map(|(n, b)| Edit::Extend(n, b)),
        1 => (any::<u8>(), any::<u32>(), any::<u16>(), any::<u32>()).prop_map(|(from, src, len, dst)| Edit::Splice { from, src, len, dst }),
        3 => (any::<u16>(), 0u8..7).prop_map(|(slot, kind)| Edit::G1 { slot, kind }),
        4 => (any::<u16>(), 0u8..12).prop_map(|(slot, kind)| Edit::RawG1 { slot, kind }),
        2 => (any::<u16>(), 0u8..5).prop_map(|(slot, kind)| Edit::Scalar { slot, kind }),
        2 => (any::<u16>(), 0u8..4).prop_map(|(slot, kind)| Edit::G2 { slot, kind }),
        3 => (any::<u16>(), 0u8..12, proptest::bool::weighted(0.25)).prop_map(|(which, val, lengths)| Edit::MsgInt { which, val, lengths }),
    ];
    if depth == 0 {
        leaf.boxed()
    } else {
        prop_oneof![
            4 => leaf,
            1 => proptest::collection::vec(edit_strategy(0), 1..3).prop_map(Edit::Inner),
        ]
        .boxed()
    }
}

fn script_strategy(_t: Tier) -> BoxedStrategy<Script> {
    (0u8..5, 0u8..3, proptest::collection::vec(edit_strategy(1), 1..4))
        .prop_map(|(target, base, edits)| Script { target, base, edits })
        .boxed()
}

fn below_p(limbs: &[u8]) -> bool {
    const P: [u64; 6] = [
        0xb9fe_ffff_ffff_aaab,
        0x1eab_fffe_b153_ffff,
        0x6730_d2a0_f6b0_f624,
        0x6477_4b84_f385_12bf,
        0x4b1b_a7b6_434b_acd7,
        0x1a01_11ea_397f_e69a,
    ];
    for i in (0..6).rev() {
        let l = u64::from_le_bytes(limbs[8 * i..8 * i + 8].try_into().unwrap());
        if l != P[i] {
            return l < P[i];
        }
    }
    false
}

/// independent validation of one raw G1 encoding
fn raw_g1_well_formed(chunk: &[u8]) -> Result<(), String> {
    let flag = chunk[96];
    if flag > 1 {
        return Err(format!("infinity flag byte {flag}"));
    }
    if !below_p(&chunk[0..48]) || !below_p(&chunk[48..96]) {
        return Err("coordinate limbs not below the field modulus".into());
    }
    if flag == 1 {
        if chunk != G1Affine::identity().to_raw_bytes().as_slice() {
            return Err("infinity flag on non-identity coordinates".into());
        }
        return Ok(());
    }
    let p = unsafe { G1Affine::from_slice_unchecked(chunk) };
    if !bool::from(p.is_on_curve()) {
        return Err("point off the curve".into());
    }
    if !bool::from(p.is_torsion_free()) {
        return Err("point outside the prime-order subgroup".into());
    }
    Ok(())
}

fn g1_well_formed(b: &[u8]) -> Result<G1Affine, String> {
    let p = G1Affine::from_slice(b).map_err(|e| format!("{e:?}"))?;
    if p.to_bytes()[..] != b[..48] {
        return Err("non-canonical compressed encoding".into());
    }
    Ok(p)
}

/// fuzz campaigns skip the expensive use of accepted provers/parameters
fn light() -> bool {
    static L: OnceLock<bool> = OnceLock::new();
    *L.get_or_init(|| std::env::var("VERIF_FUZZ_LIGHT").is_ok())
}

struct CompressedBound {
    legit_peak: usize,
}

fn compressed_bound(base: usize) -> usize {
    static B: OnceLock<Vec<CompressedBound>> = OnceLock::new();
    let v = B.get_or_init(|| {
        mutate::bases()
            .iter()
            .map(|b| {
                // a legitimate circuit of the maximal capacity for this SRS
                let max = (b.pp.max_degree() - 6).next_power_of_two();
                let max = if max > b.pp.max_degree() - 6 { max / 2 } else { max };
                let n = max - 6;
                let program = std::sync::Arc::new(crate::prog::Program::solved(vec![crate::prog::Op::Pad((n - 4) as u16)]));
                let bytes = sys::compress(&program).expect("compress");
                let (_, peak) = measure(|| Compiler::compile_with_compressed(&b.pp, b"x", &bytes).map(|_| ()));
                CompressedBound { legit_peak: peak }
            })
            .collect()
    });
    v[base % v.len()].legit_peak
}

/// The oracle: decode `bytes` with the checked decoder of `target`; panics,
/// over-allocation, ill-formed accepted data and unusable accepted values are
/// failures. Returns whether the input was accepted.
pub fn oracle(target: u8, base: u8, bytes: &[u8]) -> Result<bool, Fail> {
    let bs = mutate::bases();
    let b = &bs[base as usize % bs.len()];
    let t = TARGETS[target as usize % 5];
    let bound = 8 * bytes.len() + (1 << 20);
    match target % 5 {
        T_PROVER => {
            let (r, peak) = measure(|| no_panic(&format!("decoder-panic:{t}"), || Prover::try_from_bytes(bytes)));
            let r = r?;
            ensure!(peak <= bound, &format!("decoder-allocation:{t}"), "peak {peak} bytes for {} input bytes", bytes.len());
            let Ok(p) = r else { return Ok(false) };
            // element-wise validation of the accepted input
            let reg = mutate::regions(T_PROVER, bytes);
            for off in &reg.raw_slots {
                if off + 97 > bytes.len() {
                    continue;
                }
                raw_g1_well_formed(&bytes[*off..*off + 97]).map_err(|e| {
                    Fail::new("accepted-ill-formed:commit-key-point", format!("Prover::try_from_bytes accepted a commit key whose raw point at offset {off} has {e}"))
                })?;
            }
            for off in &reg.g1_slots {
                if off + 48 > bytes.len() {
                    continue;
                }
                g1_well_formed(&bytes[*off..*off + 48]).map_err(|e| {
                    Fail::new("accepted-ill-formed:verifier-key-commitment", format!("accepted prover: commitment at {off}: {e}"))
                })?;
            }
            // use it
            if !light() {
                let program = b.program.clone();
                let _ = no_panic(&format!("accepted-value-unusable:{t}"), || {
                    p.prove(&mut sys::rng(5), &ProgramCircuit::new(program)).map(|_| ())
                })?;
            }
            let _ = no_panic(&format!("accepted-value-unusable:{t}"), || p.to_bytes())?;
            Ok(true)
        }
        T_VERIFIER => {
            let (r, peak) = measure(|| no_panic(&format!("decoder-panic:{t}"), || Verifier::try_from_bytes(bytes)));
            let r = r?;
            ensure!(peak <= bound, &format!("decoder-allocation:{t}"), "peak {peak} bytes for {} input bytes", bytes.len());
            let Ok(v) = r else { return Ok(false) };
            let reg = mutate::regions(T_VERIFIER, bytes);
            for (i, off) in reg.g1_slots.iter().enumerate() {
                if off + 48 > bytes.len() || (i == 15 && off + 240 > bytes.len()) {
                    continue;
                }
                let p = g1_well_formed(&bytes[*off..*off + 48]).map_err(|e| {
                    Fail::new("accepted-ill-formed:verifier-point", format!("Verifier::try_from_bytes accepted a G1 element at offset {off}: {e}"))
                })?;
                if i == 15 {
                    ensure!(!bool::from(p.is_identity()), "accepted-ill-formed:opening-key-identity", "opening key g is the identity");
                    let h = G2Affine::from_slice(&bytes[off + 48..off + 144]).map_err(|e| Fail::new("accepted-ill-formed:opening-key", format!("{e:?}")))?;
                    let xh = G2Affine::from_slice(&bytes[off + 144..off + 240]).map_err(|e| Fail::new("accepted-ill-formed:opening-key", format!("{e:?}")))?;
                    ensure!(!bool::from(h.is_identity()) && !bool::from(xh.is_identity()), "accepted-ill-formed:opening-key-identity", "opening key h or x*h is the identity");
                }
            }
            let proof = Proof::from_slice(&b.proof_bytes).expect("stock proof");
            let pi = b.pi.clone();
            let _ = no_panic(&format!("accepted-value-unusable:{t}"), || v.verify(&proof, &pi).is_ok())?;
            let pi2: Vec<F> = vec![F::one(); 3];
            let _ = no_panic(&format!("accepted-value-unusable:{t}"), || v.verify(&proof, &pi2).is_ok())?;
            let _ = no_panic(&format!("accepted-value-unusable:{t}"), || v.to_bytes())?;
            Ok(true)
        }
        T_PROOF => {
            let (r, peak) = measure(|| no_panic(&format!("decoder-panic:{t}"), || Proof::from_slice(bytes)));
            let r = r?;
            ensure!(peak <= bound, &format!("decoder-allocation:{t}"), "peak {peak}");
            let Ok(p) = r else { return Ok(false) };
            for i in 0..11 {
                g1_well_formed(&bytes[48 * i..48 * i + 48]).map_err(|e| Fail::new("accepted-ill-formed:proof-commitment", format!("commitment {i}: {e}")))?;
            }
            for i in 0..15 {
                let o = 528 + 32 * i;
                F::from_slice(&bytes[o..o + 32]).map_err(|e| Fail::new("accepted-ill-formed:proof-scalar", format!("evaluation {i}: {e:?}")))?;
            }
            let pi = b.pi.clone();
            let _ = no_panic(&format!("accepted-value-unusable:{t}"), || b.verifier.verify(&p, &pi).is_ok())?;
            Ok(true)
        }
        T_PP => {
            let (r, peak) = measure(|| no_panic(&format!("decoder-panic:{t}"), || PublicParameters::from_slice(bytes)));
            let r = r?;
            ensure!(peak <= bound, &format!("decoder-allocation:{t}"), "peak {peak}");
            let Ok(pp) = r else { return Ok(false) };
            let g = g1_well_formed(&bytes[0..48]).map_err(|e| Fail::new("accepted-ill-formed:opening-key", e))?;
            ensure!(!bool::from(g.is_identity()), "accepted-ill-formed:opening-key-identity", "g is the identity");
            let h = G2Affine::from_slice(&bytes[48..144]).map_err(|e| Fail::new("accepted-ill-formed:opening-key", format!("{e:?}")))?;
            let xh = G2Affine::from_slice(&bytes[144..240]).map_err(|e| Fail::new("accepted-ill-formed:opening-key", format!("{e:?}")))?;
            ensure!(!bool::from(h.is_identity()) && !bool::from(xh.is_identity()), "accepted-ill-formed:opening-key-identity", "h or x*h is the identity");
            let mut o = 240;
            while o < bytes.len() {
                ensure!(o + 48 <= bytes.len(), "accepted-ill-formed:commit-key-length", "trailing partial point accepted");
                g1_well_formed(&bytes[o..o + 48]).map_err(|e| Fail::new("accepted-ill-formed:commit-key-point", format!("power at {o}: {e}")))?;
                o += 48;
            }
            if !light() {
                let program = b.program.clone();
                let _ = no_panic(&format!("accepted-value-unusable:{t}"), || {
                    sys::compile(&pp, b"x", &program, sys::Route::Instance).map(|_| ())
                })?;
            }
            Ok(true)
        }
        _ => {
            let legit = compressed_bound(base as usize);
            let (r, peak) = measure(|| {
                no_panic(&format!("decoder-panic:{t}"), || Compiler::compile_with_compressed(&b.pp, b"x", bytes))
            });
            let r = r?;
            ensure!(
                peak <= 2 * legit + (1 << 20),
                &format!("decoder-allocation:{t}"),
                "compile_with_compressed peaked at {peak} bytes; a legitimate maximal circuit for these parameters peaks at {legit}"
            );
            let Ok((p, _v)) = r else { return Ok(false) };
            let _ = no_panic(&format!("accepted-value-unusable:{t}"), || p.to_bytes())?;
            Ok(true)
        }
    }
}

fn check(ctx: &Ctx, s: &Script) -> PResult {
    let target = s.target % 5;
    let bytes = mutate::run_script(s);
    let unchanged = bytes == mutate::base_bytes(target, s.base);
    let accepted = oracle(target, s.base, &bytes)?;
    let kinds: Vec<&str> = s
        .edits
        .iter()
        .map(|e| match e {
            Edit::Flip(_) => "flip",
            Edit::SetU64 { .. } => "length-field",
            Edit::Truncate(_) => "truncate",
            Edit::TruncateAt(_) => "truncate-at-boundary",
            Edit::Extend(..) => "extend",
            Edit::Splice { .. } => "splice",
            Edit::G1 { .. } => "crafted-g1",
            Edit::RawG1 { .. } => "crafted-raw-g1",
            Edit::Scalar { .. } => "crafted-scalar",
            Edit::G2 { .. } => "crafted-g2",
            Edit::Inner(_) => "inner-payload",
            Edit::MsgInt { lengths: false, .. } => "msgpack-integer",
            Edit::MsgInt { lengths: true, .. } => "msgpack-array-length",
        })
        .collect();
    ctx.eval(&format!("{} {}", TARGETS[target as usize], if accepted { "accepted" } else { "rejected" }));
    for k in &kinds {
        ctx.label(&format!("{} edit {k}", TARGETS[target as usize]));
    }
    if unchanged {
        ensure!(accepted, "valid-encoding-rejected", "{}: the unmodified valid encoding is rejected", TARGETS[target as usize]);
    }
    if accepted || s.edits.len() == 1 {
        ctx.nontrivial(&bytes[..bytes.len().min(8192)]);
    }
    ctx.sample(&format!("{} {}", TARGETS[target as usize], if accepted { "accepted" } else { "rejected" }), || {
        json!({"target": TARGETS[target as usize], "edits": kinds, "len": bytes.len(), "accepted": accepted})
    });
    Ok(())
}

/// replay tier: committed seed corpus and saved fuzzer inputs
fn corpus_replay(ctx: &Ctx) {
    let root = std::path::Path::new(crate::runner::verif_root()).join("corpus");
    for dir in ["decoders", "raw_proof", "raw_compressed", "raw_verifier", "raw_pp", "raw_prover"] {
        let Ok(rd) = std::fs::read_dir(root.join(dir)) else { continue };
        let mut files: Vec<_> = rd.filter_map(|e| e.ok()).map(|e| e.path()).collect();
        files.sort();
        for f in files {
            ctx.eval(&format!("corpus replay {dir}"));
            if let Err(fail) = replay_corpus_file(&f) {
                ctx.violation("decoders", &fail, json!({"corpus_file": f.display().to_string()}));
            }
        }
    }
}

/// replay one fuzzer input file (target inferred from its directory name)
pub fn replay_corpus_file(path: &std::path::Path) -> Result<(), Fail> {
    let data = std::fs::read(path).map_err(|e| Fail::new("replay-read", format!("{e}")))?;
    let dir = path.parent().and_then(|p| p.file_name()).map(|n| n.to_string_lossy().to_string()).unwrap_or_default();
    let name = path.file_name().map(|n| n.to_string_lossy().to_string()).unwrap_or_default();
    if dir.starts_with("raw_proof") {
        return oracle(T_PROOF, 0, &data).map(|_| ());
    }
    if dir.starts_with("raw_compressed") {
        let base = data.first().copied().unwrap_or(0);
        return oracle(mutate::T_COMPRESSED, base, data.get(1..).unwrap_or(&[])).map(|_| ());
    }
    for (d, t) in [("raw_verifier", T_VERIFIER), ("raw_pp", T_PP), ("raw_prover", T_PROVER)] {
        if dir.starts_with(d) {
            let base = data.first().copied().unwrap_or(0);
            return oracle(t, base, data.get(1..).unwrap_or(&[])).map(|_| ());
        }
    }
    if name.starts_with("raw-") {
        let ti = TARGETS.iter().position(|t| dir.starts_with(t)).unwrap_or(0);
        return oracle(ti as u8, 0, &data).map(|_| ());
    }
    let s = mutate::script_from_bytes(&data);
    let bytes = mutate::run_script(&s);
    oracle(s.target % 5, s.base, &bytes).map(|_| ())
}

pub fn props() -> Vec<(Box<dyn PropDyn>, u32, u32)> {
    vec![(Box::new(Prop::new("decoders", script_strategy, check).shrink(800)), 24000, 400000)]
}

pub fn sweeps(ctx: &Ctx) {
    corpus_replay(ctx);
    // fuzz-campaign crash artefacts and summary (written by tools/fuzz_campaign.sh)
    let root = std::path::Path::new(crate::runner::verif_root());
    for dir in ["decoders", "raw_proof", "raw_compressed", "raw_verifier", "raw_pp", "raw_prover"] {
        let d = root.join("corpus").join(format!("{dir}-crashes"));
        if let Ok(rd) = std::fs::read_dir(&d) {
            let mut files: Vec<_> = rd.filter_map(|e| e.ok()).map(|e| e.path()).collect();
            files.sort();
            for f in files {
                ctx.eval("fuzz crash artefact replay");
                if let Err(fail) = replay_corpus_file(&f) {
                    ctx.violation("decoders", &fail, json!({"corpus_file": f.display().to_string()}));
                }
            }
        }
    }
    if let Ok(b) = std::fs::read(root.join("harness/target/fuzz-summary.json")) {
        if let Ok(v) = serde_json::from_slice::<serde_json::Value>(&b) {
            if let Some(n) = v.get("total_execs").and_then(|x| x.as_u64()) {
                ctx.add_evals(n);
            }
            ctx.extra("libfuzzer_campaign", v);
        }
    }
}

pub fn describe(ctx: &Ctx) {
    ctx.rule("inputs: valid encodings of 3 base circuits (prover, verifier, proof, public parameters, compressed circuit) under scripts of 1..3 structure-aware edits {bit flip anywhere; length/size fields set to 0, 1, len, len+-1, 2^32, 2^63, u64::MAX; truncate; extend; splice from another artefact; compressed G1 slot replaced by identity / undecodable x / on-curve non-subgroup point / x >= p / all-ones / infinity flag on a point; raw G1 slot replaced by flag byte 2 or 0xff / the identity's coordinates under flag byte 2, 3, 0x80, 0xff / flag 1 on a non-identity point / limbs + p / off-curve / non-subgroup / identity; scalar replaced by r, r+1, 2^256-1; for compressed circuits the same edits on the inflated MessagePack payload, re-deflated, and MessagePack-aware edits that re-encode one integer / array-length token (declared counts, indices) as 0, 1, cur+-1, 2*cur, 2^16..2^27, 2^61..2^63 with the rest left well-formed}, in the debug-assertions + overflow-checks build; plus the committed fuzz corpus. Oracle inside the decoder call: no panic, per-thread peak allocation <= 8*len + 1 MiB (compressed: <= 2x a legitimate maximal-capacity compile + 1 MiB), every group element / scalar of an accepted input independently re-validated (canonical, on curve, subgroup, non-identity where required), accepted values used (prove / verify / compile / re-encode) without panicking. non-trivial = accepted input, or single-edit rejected input; distinct by input bytes");
    ctx.assume("libFuzzer campaigns (fuzz/) extend this tier in thorough mode; their crashing inputs are copied into corpus/ and replayed here");
}
