//! C18 — compilation and proving are deterministic and schedule-independent.

#[path = "../../../shared/c18_circuits.rs"]
pub mod shared;

use std::collections::BTreeMap;
use std::process::Command;
use std::sync::Arc;

use dusk_bytes::Serializable;
use dusk_plonk::prelude::{Compiler, PublicParameters};
use proptest::prelude::*;
use rand_chacha::ChaCha20Rng;
use rand_core::SeedableRng;
use serde::{Deserialize, Serialize};
use serde_json::json;

use crate::checks::c19::in_pool;
use crate::ensure;
use crate::prog::{self, Program};
use crate::runner::{no_panic, Ctx, Fail, PResult, Prop, PropDyn, Tier};
use crate::sys::{self, Route};

fn shared_pp(thorough: bool) -> Arc<PublicParameters> {
    use std::sync::OnceLock;
    static P: OnceLock<(bool, Arc<PublicParameters>)> = OnceLock::new();
    let set = shared::circuit_set(thorough);
    let cap = set.iter().map(|(s, _)| (*s + 6).next_power_of_two()).max().unwrap();
    P.get_or_init(|| (thorough, Arc::new(shared::setup(cap)))).1.clone()
}

/// order in which this process handles the history set (three different
/// circuits with one label and one constraint count)
fn history_order(pool: u8) -> [usize; 3] {
    [[0, 1, 2], [2, 1, 0], [1, 0, 2], [2, 0, 1]][(pool % 4) as usize]
}

pub fn own_digests(thorough: bool, pool: u8) -> Result<BTreeMap<String, String>, String> {
    let pp = shared_pp(thorough);
    let mut m = BTreeMap::new();
    let order = history_order(pool);
    let d = in_pool(pool, || shared::history_digests(&pp, &order)).map_err(|e| format!("history set in order {order:?}: {e:?}"))?;
    for (k, v) in d {
        m.insert(k, v);
    }
    for (size, a) in shared::circuit_set(thorough) {
        let d = in_pool(pool, || shared::digests(&pp, size, a)).map_err(|e| format!("{size}: {e:?}"))?;
        for (k, v) in d {
            m.insert(k, v);
        }
    }
    Ok(m)
}

/// entry point of `vcheck --c18-child <pool> [thorough]`
pub fn child_main(pool: u8, thorough: bool) {
    match own_digests(thorough, pool) {
        Ok(m) => {
            for (k, v) in m {
                println!("{k} {v}");
            }
        }
        Err(e) => println!("error {e}"),
    }
}

fn parse_lines(s: &str) -> BTreeMap<String, String> {
    s.lines()
        .filter_map(|l| {
            let mut it = l.split_whitespace();
            Some((it.next()?.to_string(), it.next()?.to_string()))
        })
        .collect()
}

fn compare(ctx: &Ctx, what: &str, base: &BTreeMap<String, String>, other: &BTreeMap<String, String>) -> bool {
    for (k, v) in base {
        match other.get(k) {
            Some(o) if o == v => {
                ctx.add_evals(1);
            }
            o => {
                ctx.violation(
                    "fixed_set",
                    &Fail::new(
                        format!("digest-differs:{what}:{}", k.split('.').nth(1).unwrap_or("")),
                        format!("{k}: baseline {v}, {what} {:?}", o),
                    ),
                    json!({"what": what, "key": k}),
                );
                return false;
            }
        }
    }
    true
}

/// the shared circuit set: pools, repeated runs, fresh processes, the
/// alloc-only build, concurrent use of shared keys
fn sweep(ctx: &Ctx) {
    let thorough = ctx.tier == Tier::Thorough;
    let base = match own_digests(thorough, 1) {
        Ok(b) => b,
        Err(e) => {
            ctx.violation("fixed_set", &Fail::new("shared-circuit-fails", e), json!({}));
            return;
        }
    };
    ctx.add_evals(base.len() as u64);
    for (k, _) in &base {
        ctx.nontrivial(k.as_bytes());
    }
    let pools: Vec<u8> = if thorough { (0..=17).chain([24, 32]).collect() } else { vec![0, 2, 3, 4, 5, 8, 16, 17] };
    for p in &pools {
        match own_digests(thorough, *p) {
            Ok(d) => {
                if !compare(ctx, &format!("pool-{p}"), &base, &d) {
                    return;
                }
                ctx.label(&format!("pool {p}"));
            }
            Err(e) => {
                ctx.violation("fixed_set", &Fail::new("shared-circuit-fails", e), json!({"pool": p}));
                return;
            }
        }
    }
    // repeated runs in this process
    for _ in 0..2 {
        if let Ok(d) = own_digests(thorough, 0) {
            if !compare(ctx, "repeated-run", &base, &d) {
                return;
            }
        }
    }
    ctx.label("repeated runs");
    // fresh processes (new hash seeds, new label cache)
    let exe = std::env::current_exe().expect("exe");
    let children = if thorough { 5 } else { 2 };
    for i in 0..children {
        let pool = [0u8, 3, 8, 1, 17][i % 5];
        let mut cmd = Command::new(&exe);
        cmd.arg("C18").arg("--c18-child").arg(pool.to_string());
        if thorough {
            cmd.arg("thorough");
        }
        match cmd.output() {
            Ok(o) if o.status.success() => {
                let d = parse_lines(&String::from_utf8_lossy(&o.stdout));
                if !compare(ctx, &format!("fresh-process-pool-{pool}"), &base, &d) {
                    return;
                }
                ctx.label("fresh process");
            }
            other => {
                ctx.infra_problem(format!("child process failed: {other:?}"));
                return;
            }
        }
    }
    // the alloc-only (serial) build
    let nostd = std::path::Path::new(crate::runner::verif_root()).join("harness-nostd/target/fast/nostd-digest");
    if nostd.exists() {
        let mut cmd = Command::new(&nostd);
        if thorough {
            cmd.arg("thorough");
        }
        match cmd.output() {
            Ok(o) if o.status.success() => {
                let d = parse_lines(&String::from_utf8_lossy(&o.stdout));
                if !compare(ctx, "alloc-only-build", &base, &d) {
                    return;
                }
                ctx.label("alloc-only build");
            }
            other => ctx.infra_problem(format!("alloc-only digest binary failed: {other:?}")),
        }
    } else {
        ctx.infra_problem(format!("{} is missing (run ./setup.sh)", nostd.display()));
    }
    // the default-feature build without legacy-proving (a third feature set)
    let nolegacy = std::path::Path::new(crate::runner::verif_root()).join("harness-nolegacy/target/fast/nolegacy-digest");
    if nolegacy.exists() {
        let mut cmd = Command::new(&nolegacy);
        if thorough {
            cmd.arg("thorough");
        }
        match cmd.output() {
            Ok(o) if o.status.success() => {
                let d = parse_lines(&String::from_utf8_lossy(&o.stdout));
                if !compare(ctx, "build-without-legacy-proving", &base, &d) {
                    return;
                }
                ctx.label("default-feature build without legacy-proving");
            }
            other => ctx.infra_problem(format!("no-legacy digest binary failed: {other:?}")),
        }
    } else {
        ctx.infra_problem(format!("{} is missing (run ./setup.sh)", nolegacy.display()));
    }
    // concurrent proving and verifying on shared keys
    let pp = shared_pp(thorough);
    let (size, a) = (1000usize, 6u64);
    let circuit = shared::Mixed { size, a, variant: 0 };
    let (prover, verifier) = match Compiler::compile_with_circuit(&pp, b"c18-concurrent", &circuit) {
        Ok(k) => k,
        Err(e) => {
            ctx.violation("fixed_set", &Fail::new("shared-circuit-fails", format!("{e:?}")), json!({}));
            return;
        }
    };
    let seq: Vec<Vec<u8>> = (0..16u64)
        .map(|i| {
            let mut rng = ChaCha20Rng::seed_from_u64(i);
            prover.prove(&mut rng, &circuit).map(|(p, _)| p.to_bytes().to_vec()).unwrap_or_default()
        })
        .collect();
    for threads in if thorough { vec![2usize, 4, 7, 16] } else { vec![4usize, 16] } {
        let results: Vec<(u64, Vec<u8>, bool)> = std::thread::scope(|s| {
            let hs: Vec<_> = (0..threads as u64)
                .map(|i| {
                    let (prover, verifier, circuit) = (&prover, &verifier, &circuit);
                    s.spawn(move || {
                        let mut rng = ChaCha20Rng::seed_from_u64(i);
                        // a label first seen concurrently
                        let _ = Compiler::compile_with_circuit(&shared::setup(64), format!("fresh-{i}").as_bytes(), &shared::Mixed { size: 40, a: i, variant: 0 });
                        match prover.prove(&mut rng, circuit) {
                            Ok((p, pi)) => {
                                let ok = verifier.verify(&p, &pi).is_ok();
                                (i, p.to_bytes().to_vec(), ok)
                            }
                            Err(_) => (i, Vec::new(), false),
                        }
                    })
                })
                .collect();
            hs.into_iter().map(|h| h.join().unwrap()).collect()
        });
        for (i, bytes, ok) in results {
            ctx.add_evals(1);
            if bytes != seq[i as usize] || !ok {
                ctx.violation(
                    "fixed_set",
                    &Fail::new("concurrent-result-differs", format!("thread {i} of {threads}: proof differs from the sequential run or fails verification")),
                    json!({"threads": threads, "i": i}),
                );
                return;
            }
        }
        ctx.label(&format!("concurrent threads {threads}"));
    }
}

// generated programs: repeated compile/prove and pool variation

#[derive(Debug, Clone, Serialize, Deserialize)]
pub struct Case {
    pub ops: Vec<prog::Op>,
    pub k: u32,
    pub delta: i8,
    pub pool: u8,
    pub seed: u64,
    pub route: u8,
}

fn case_strategy(t: Tier) -> BoxedStrategy<Case> {
    let max_k = t.pick(10u32, 12u32);
    (prog::ops_strategy(20, 4, 1), 8u32..=max_k, -8i8..=0, prop_oneof![Just(2u8), Just(3u8), Just(4u8), Just(7u8), Just(16u8), Just(17u8)], any::<u64>(), 0u8..3)
        .prop_map(|(ops, k, delta, pool, seed, route)| Case { ops, k, delta, pool, seed, route })
        .boxed()
}

fn check(ctx: &Ctx, c: &Case) -> PResult {
    let (program, n) = crate::checks::c01::padded_program(&c.ops, Some((c.k, c.delta)), 20000)?;
    let pp = sys::pp(sys::min_capacity(n));
    let route = crate::checks::c01::route_of(c.route);
    let once = |pool: u8| -> Result<(Vec<u8>, Vec<u8>, Vec<u8>, Vec<u8>), Fail> {
        no_panic("compile-or-prove-panic", || {
            in_pool(pool, || {
                let (p, v) = sys::compile(&pp, b"c18", &program, route).map_err(|e| Fail::new("compile-error", format!("{e:?}")))?;
                let (proof, _) = sys::prove(&p, &program, c.seed).map_err(|e| Fail::new("prove-error", format!("{e:?}")))?;
                let comp = sys::compress(&program).map_err(|e| Fail::new("compress-error", format!("{e:?}")))?;
                Ok((p.to_bytes(), v.to_bytes(), proof.to_bytes().to_vec(), comp))
            })
        })?
    };
    let base = once(1)?;
    let cls = format!("generated n=2^{} pool {}", n.next_power_of_two().trailing_zeros(), c.pool);
    ctx.eval(&cls);
    for (what, pool) in [("another pool", c.pool), ("global pool", 0u8), ("repeat", 1u8)] {
        let o = once(pool)?;
        ensure!(o.0 == base.0, "prover-bytes-differ", "{what} (pool {pool}): prover bytes differ ({n} constraints, route {route:?})");
        ensure!(o.1 == base.1, "verifier-bytes-differ", "{what} (pool {pool}): verifier bytes differ");
        ensure!(o.2 == base.2, "proof-bytes-differ", "{what} (pool {pool}): proof bytes differ for the same randomness");
        ensure!(o.3 == base.3, "compressed-bytes-differ", "{what} (pool {pool}): compressed description differs");
        ctx.add_evals(1);
    }
    if n >= 500 {
        ctx.nontrivial_json(&(&base.1[..64.min(base.1.len())], c.pool, c.route));
        ctx.sample(&cls, || json!({"constraints": n, "pool": c.pool, "route": format!("{route:?}")}));
    }
    let _ = Program::solved;
    let _ = Route::Instance;
    Ok(())
}

pub fn props() -> Vec<(Box<dyn PropDyn>, u32, u32)> {
    vec![(Box::new(Prop::new("generated", case_strategy, check).shrink(30)), 48, 600)]
}

pub fn sweeps(ctx: &Ctx) {
    sweep(ctx);
}

pub fn describe(ctx: &Ctx) {
    ctx.rule("configurations: (a) a shared circuit set (sizes 300, 1000, 4000; +2040, 8000 thorough: proving domains on both sides of the 2^12 parallel-FFT switch, quotient domains 8n above it) x rayon pools {global, 1, 2, 3, 4, 5, 8, 16, 17} (0..=17, 24, 32 thorough) x repeated runs x 2 (5) fresh processes x the alloc-only build (separate binary linked against dusk-plonk without std/rayon) x 4 and 16 (2, 4, 7, 16) threads proving and verifying concurrently on shared keys while compiling fresh labels; (b) generated programs of 2^8..2^10 (2^12) rows compiled and proved under two pools, the global pool and again. Oracle: SHA-256 digests of Prover::to_bytes, Verifier::to_bytes, proof bytes (ChaCha-seeded RNG), public inputs and compressed bytes are identical across all of them; concurrent results equal sequential results. non-trivial = configuration takes a parallel path (n >= 500); distinct by (artefact, configuration)");
    ctx.assume("rayon's scheduler is not controlled; schedule independence is explored through pool sizes, repetition, concurrency and processes (DESIGN.md section 8)");
}
