//! C02 — soundness (explored strategies): no proof of a false statement is
//! accepted.

use std::sync::Arc;

use dusk_bytes::Serializable;
use dusk_plonk::prelude::{PlonkVersion, Proof};
use proptest::prelude::*;
use serde::{Deserialize, Serialize};
use serde_json::json;

use crate::checks::c03;
use crate::checks::c05;
use crate::fe::{fe_any, fe_random, pick, Fe, F};
use crate::prog::{self, Op, Pi, Program, ProgramCircuit};
use crate::refprover::{self, Deviation};
use crate::refver::{RefVerifier, Version};
use crate::runner::{no_panic, Ctx, Fail, PResult, Prop, PropDyn, Tier};
use crate::spec::{self, Layout};
use crate::sys::{self, Route};

#[derive(Debug, Clone, Serialize, Deserialize)]
pub enum Attack {
    /// honest algorithm forced past its check on a violating assignment
    Forced { edits: Vec<(u16, Fe)>, alter_pi: bool },
    /// forced, with a raw family row that has one component broken
    ForcedFamily { fam: u8, violate: u8, sel_val: Fe, xor: bool, r: Vec<Fe> },
    /// forced, every row satisfied but one compiled copy constraint broken
    ForcedDrift { a: Fe, b: Fe },
    /// independent malicious prover: violating assignment, remainder dropped
    RefDropRemainder { edits: Vec<(u16, Fe)> },
    /// arbitrary grand product / quotient and one evaluation solved so that
    /// the linearisation identity holds
    RefSolved { random_z: bool, random_t: bool, eval: u8, edits: Vec<(u16, Fe)> },
    /// one evaluation shifted after the fact
    RefShift { eval: u8, by: Fe },
    /// field-wise splices of two valid proofs
    Splice,
    Degenerate,
    /// the two opening commitments shifted as a cancelling pair computed from
    /// a folding challenge `u` learnt before the pair is absorbed (a verifier
    /// deriving `u` too early would accept); on an honest proof or on a
    /// forced proof of a violating assignment
    LateBoundOpenings { early: u8, shift: Fe, edits: Option<Vec<(u16, Fe)>> },
    /// the prover proves one public-input vector (a satisfied instance) and
    /// hashes another one into the transcript - the claimed statement; the
    /// claimed vector differs at `count` positions chosen from the tail, the
    /// head or anywhere
    ClaimedInputs { region: u8, count: u8, with: Fe },
    /// the prover computes everything (quotient, linearisation, evaluations,
    /// opening witnesses) with one of the four OPENED selector polynomials
    /// (q_arith, q_c, q_l, q_r) replaced by zero: its claimed evaluation is 0
    /// and is consistent with everything in the proof except the circuit's own
    /// selector commitment. With q_arith gone no arithmetic row binds anything,
    /// so an arbitrary assignment and all-zero public inputs are "proved".
    ZeroSelector { which: u8, edits: Vec<(u16, Fe)> },
}

#[derive(Debug, Clone, Serialize, Deserialize)]
pub struct Case {
    pub ops: Vec<Op>,
    pub attack: Attack,
    pub seed: u64,
}

fn edits() -> BoxedStrategy<Vec<(u16, Fe)>> {
    proptest::collection::vec((any::<u16>(), fe_any()), 1..3).boxed()
}

fn case_strategy(_t: Tier) -> BoxedStrategy<Case> {
    let attack = prop_oneof![
        4 => (edits(), any::<bool>()).prop_map(|(edits, alter_pi)| Attack::Forced { edits, alter_pi }),
        4 => (1u8..5, 0u8..5, prop_oneof![Just(Fe(F::one())), Just(Fe(-F::one()))], any::<bool>(), proptest::collection::vec(fe_random(), 12))
            .prop_map(|(fam, violate, sel_val, xor, r)| Attack::ForcedFamily { fam, violate, sel_val, xor, r }),
        3 => (fe_any(), fe_any()).prop_map(|(a, b)| Attack::ForcedDrift { a, b }),
        3 => edits().prop_map(|edits| Attack::RefDropRemainder { edits }),
        6 => (any::<bool>(), any::<bool>(), 0u8..15, edits())
            .prop_map(|(random_z, random_t, eval, edits)| Attack::RefSolved { random_z, random_t, eval, edits }),
        2 => (0u8..15, fe_random()).prop_map(|(eval, by)| Attack::RefShift { eval, by }),
        2 => Just(Attack::Splice),
        1 => Just(Attack::Degenerate),
        3 => (0u8..4, prop_oneof![Just(Fe(F::one())), fe_random()], proptest::option::of(edits()))
            .prop_map(|(early, shift, edits)| Attack::LateBoundOpenings { early, shift, edits }),
        3 => (prop_oneof![3 => Just(0u8), 1 => 1u8..4], edits()).prop_map(|(which, edits)| Attack::ZeroSelector { which, edits }),
        4 => (prop_oneof![1 => 0u8..3, 2 => 3u8..5], prop_oneof![3 => 1u8..4, 1 => 1u8..18], fe_random()).prop_map(|(region, count, with)| Attack::ClaimedInputs { region, count, with }),
    ];
    // a fifth of the circuits carry a long run of public inputs
    (prog::with_pi_burst(prog::ops_strategy(10, 2, 0), 200), attack, any::<u64>())
        .prop_map(|(ops, attack, seed)| Case { ops, attack, seed })
        .boxed()
}

fn check(ctx: &Ctx, c: &Case) -> PResult {
    let mut ops = c.ops.clone();
    // lying about public inputs is most interesting on long vectors (batched /
    // chunked evaluation paths): four cases in five get a run of 17..100
    // public inputs (a tenth of them zero)
    if let Attack::ClaimedInputs { .. } = &c.attack {
        if c.seed % 5 != 0 {
            let n = [17usize, 33, 34, 40, 47, 49, 65, 100][(c.seed >> 8) as usize % 8];
            for (i, v) in crate::fe::f_stream(c.seed ^ 0xb0b, n).into_iter().enumerate() {
                ops.push(Op::Public(Fe(if (c.seed >> (16 + i % 40)) & 15 == 0 { F::zero() } else { v })));
            }
        }
    }
    let mut fam_class = String::new();
    if let Attack::ForcedFamily { fam, violate, sel_val, xor, r } = &c.attack {
        let rr: Vec<F> = r.iter().map(|x| x.0).collect();
        let (sel, vals, next, pi) = c05::family_row(*fam % 5, sel_val.0, Some(*violate), false, false, *xor, &rr);
        ops.push(Op::Raw {
            sel: sel.iter().map(|x| Fe(*x)).collect(),
            vals: [Fe(vals[0]), Fe(vals[1]), Fe(vals[2]), Fe(vals[3])],
            next: Some([Fe(next[0]), Fe(next[1]), Fe(next[2]), Fe(next[3])]),
            pi: match pi { None => Pi::None, Some(p) => Pi::Val(Fe(p)) },
        });
        fam_class = format!(" fam{}", fam % 5);
    }
    // copy-constraint break: a constant-pinned witness also sits on an
    // unconstrained wire of a final gate; the instance puts another witness there
    let mut drift_instance: Option<Arc<Program>> = None;
    if let Attack::ForcedDrift { a, b } = &c.attack {
        if a == b {
            ctx.excluded("drift with equal values");
            return Ok(());
        }
        let zero = Fe(F::zero());
        ops.push(Op::Const(*a));
        ops.push(Op::Wit(*b));
        ops.push(Op::Gate { q: [zero; 5], qc: zero, w: [0, 0, 0, 0], pi: Pi::None });
        let (_, tr) = prog::build(&Program::solved(ops.clone())).map_err(|e| Fail::new("honest-build-error", format!("{e:?}")))?;
        let handles = tr.wits.len();
        let pick_for = |i: usize| -> u16 { (((i as u64) << 16).div_ceil(handles as u64)) as u16 };
        let last = ops.len() - 1;
        let mut inst_ops = ops.clone();
        if let Op::Gate { w, .. } = &mut ops[last] {
            w[0] = pick_for(handles - 2);
        }
        if let Op::Gate { w, .. } = &mut inst_ops[last] {
            w[0] = pick_for(handles - 1);
        }
        drift_instance = Some(Arc::new(Program::solved(inst_ops)));
        fam_class = " copy-constraint".to_string();
    }
    let program = Arc::new(Program::solved(ops));
    let (composer, _) = prog::build(&program).map_err(|e| Fail::new("honest-build-error", format!("{e:?}")))?;
    let snap = composer.verif_snapshot();
    let layout = Layout::from_snapshot(&snap);
    let n = layout.size();
    let cap = sys::min_capacity(layout.rows.len()).max(32);
    let pp = sys::pp(cap);
    let (prover, verifier) = sys::compile(&pp, b"c02", &program, Route::Instance)
        .map_err(|e| Fail::new("compile-error", format!("{e:?}")))?;
    let rv = RefVerifier::parse(&verifier.to_bytes()).map_err(|e| Fail::new("refver-parse", e))?;
    let honest_pi: Vec<F> = snap.public_inputs.iter().map(|p| p.1).collect();
    let v3 = PlonkVersion::V3;
    let nw = snap.witnesses.len();

    let assignment = |ed: &Vec<(u16, Fe)>| -> (Vec<(usize, F)>, Vec<F>) {
        let ov: Vec<(usize, F)> = ed.iter().map(|(i, v)| (pick(*i, nw), v.0)).collect();
        let mut w = snap.witnesses.clone();
        for (i, v) in &ov {
            w[*i] = *v;
        }
        (ov, w)
    };
    let unsat_of = |w: &[F]| -> bool {
        let table = spec::wire_table(&layout, w);
        let mut pi = vec![F::zero(); layout.size()];
        for (r, v) in &snap.public_inputs {
            pi[*r] = *v;
        }
        !spec::eval_rows(&layout, &table, &pi).is_empty()
    };

    match &c.attack {
        Attack::Forced { .. } | Attack::ForcedFamily { .. } | Attack::ForcedDrift { .. } => {
            let (ov, w) = match &c.attack {
                Attack::Forced { edits, .. } => assignment(edits),
                _ => (Vec::new(), snap.witnesses.clone()),
            };
            if drift_instance.is_none() && !unsat_of(&w) {
                ctx.excluded("assignment happens to satisfy the circuit");
                return Ok(());
            }
            let inst = match &drift_instance {
                Some(d) => d.clone(),
                None => {
                    let mut inst = (*program).clone();
                    inst.overrides = ov;
                    Arc::new(inst)
                }
            };
            dusk_plonk::verif::set_force(true);
            let r = no_panic("forced-prove-panic", || sys::prove(&prover, &inst, c.seed));
            dusk_plonk::verif::set_force(false);
            let r = r?;
            let (proof, mut pi) = match r {
                Ok(x) => x,
                Err(e) => {
                    ctx.eval(&format!("forced prover{fam_class}: no proof produced ({})", sys::err_name(&e)));
                    return Ok(());
                }
            };
            if let Attack::Forced { alter_pi: true, .. } = &c.attack {
                if !pi.is_empty() {
                    pi[0] += F::one();
                }
            }
            let bytes = proof.to_bytes().to_vec();
            for v in [PlonkVersion::V3, PlonkVersion::V2, PlonkVersion::V1] {
                c03::compare(ctx, &format!("forced prover on a violating assignment{fam_class}"), &verifier, &rv, &bytes, &pi, v, Some(false))?;
            }
        }
        Attack::RefDropRemainder { edits } | Attack::RefSolved { edits, .. } => {
            if n > 64 {
                ctx.excluded("circuit too large for the reference prover");
                return Ok(());
            }
            let srs = refprover::srs_for(cap, &pp, n + 7);
            let keys = refprover::ref_keys(&layout, b"c02", &srs).ok_or_else(|| Fail::new("refprover-commit", "key"))?;
            let (_, w) = assignment(edits);
            let unsat = unsat_of(&w);
            let dev = match &c.attack {
                Attack::RefDropRemainder { .. } => {
                    if !unsat {
                        ctx.excluded("assignment happens to satisfy the circuit");
                        return Ok(());
                    }
                    Deviation { drop_remainder: true, ..Default::default() }
                }
                Attack::RefSolved { random_z, random_t, eval, .. } => {
                    if !unsat && !random_z && !random_t {
                        ctx.excluded("nothing forged");
                        return Ok(());
                    }
                    Deviation {
                        drop_remainder: true,
                        random_z: random_z.then_some(c.seed),
                        random_t: random_t.then_some(c.seed ^ 9),
                        solve_eval: Some(*eval as usize),
                        shift_eval: None,
                        transcript_pi: None,
                    }
                }
                _ => unreachable!(),
            };
            let bl = crate::fe::f_stream(c.seed, 14);
            let mut b14 = [F::zero(); 14];
            b14.copy_from_slice(&bl);
            let out = match refprover::prove(&keys, &layout, &srs, &w, &snap.public_inputs, &b14, Version::V3, &dev) {
                Ok(o) => o,
                Err(e) => {
                    ctx.label(&format!("reference prover stopped: {e}"));
                    return Ok(());
                }
            };
            let class = match &c.attack {
                Attack::RefDropRemainder { .. } => "malicious prover: remainder dropped".to_string(),
                _ => format!(
                    "malicious prover: solved evaluation ({})",
                    if out.r_at_z == F::zero() { "linearisation identity satisfied" } else { "identity not affine in it" }
                ),
            };
            c03::compare(ctx, &class, &verifier, &rv, &out.proof.to_bytes(), &honest_pi, v3, Some(false))?;
        }
        Attack::RefShift { eval, by } => {
            if by.0 == F::zero() {
                return Ok(());
            }
            let (proof, pi) = sys::prove(&prover, &program, c.seed).map_err(|e| Fail::new("prove-error", format!("{e:?}")))?;
            let mut b = proof.to_bytes().to_vec();
            let r = c03::field_range(11 + (*eval as usize % 15));
            let cur = F::from_bytes(&b[r.clone()].try_into().unwrap()).unwrap();
            b[r].copy_from_slice(&(cur + by.0).to_bytes());
            c03::compare(ctx, "honest proof with one evaluation shifted", &verifier, &rv, &b, &pi, v3, Some(false))?;
        }
        Attack::Splice => {
            let (p1, pi) = sys::prove(&prover, &program, c.seed).map_err(|e| Fail::new("prove-error", format!("{e:?}")))?;
            let (p2, _) = sys::prove(&prover, &program, c.seed ^ 0x55).map_err(|e| Fail::new("prove-error", format!("{e:?}")))?;
            let (b1, b2) = (p1.to_bytes().to_vec(), p2.to_bytes().to_vec());
            for f in 0..26 {
                let r = c03::field_range(f);
                if b1[r.clone()] == b2[r.clone()] {
                    ctx.excluded("spliced field equal in both proofs");
                    continue;
                }
                let mut s = b1.clone();
                s[r.clone()].copy_from_slice(&b2[r.clone()]);
                c03::compare(ctx, "splice: one field from another valid proof", &verifier, &rv, &s, &pi, v3, Some(false))?;
                let mut s = b2.clone();
                s[r.clone()].copy_from_slice(&b1[r.clone()]);
                c03::compare(ctx, "splice: all but one field from another valid proof", &verifier, &rv, &s, &pi, v3, Some(false))?;
            }
        }
        Attack::LateBoundOpenings { early, shift, edits } => {
            if shift.0 == F::zero() {
                return Ok(());
            }
            let x_g = refprover::srs_for(cap, &pp, 2).powers[1];
            let mut inst = (*program).clone();
            let mut forced = false;
            if let Some(ed) = edits {
                let (ov, w) = assignment(ed);
                if unsat_of(&w) {
                    inst.overrides = ov;
                    forced = true;
                }
            }
            let inst = Arc::new(inst);
            for v in [PlonkVersion::V3, PlonkVersion::V2] {
                dusk_plonk::verif::set_force(forced);
                let r = no_panic("forced-prove-panic", || sys::prove_version(&prover, &inst, c.seed, v));
                dusk_plonk::verif::set_force(false);
                let Ok((proof, pi)) = r? else {
                    ctx.eval("late-bound openings: no base proof produced");
                    continue;
                };
                let rp = crate::refver::RefProof::parse(&proof.to_bytes()).map_err(|e| Fail::new("refver-parse", e))?;
                let Some(forged) = crate::refver::late_bound_opening_pair(&rv, &rp, &pi, crate::refver::version_of(v), *early, &x_g, &shift.0) else { continue };
                c03::compare(
                    ctx,
                    &format!("opening pair shifted with an early folding challenge ({} base proof)", if forced { "forced, violating" } else { "honest" }),
                    &verifier, &rv, &forged.to_bytes(), &pi, v, Some(false),
                )?;
            }
        }
        Attack::ClaimedInputs { region, count, with } => {
            if n > 128 {
                ctx.excluded("circuit too large for the reference prover");
                return Ok(());
            }
            if honest_pi.is_empty() {
                ctx.excluded("no public input to lie about");
                return Ok(());
            }
            let srs = refprover::srs_for(cap, &pp, n + 7);
            let keys = refprover::ref_keys(&layout, b"c02", &srs).ok_or_else(|| Fail::new("refprover-commit", "key"))?;
            let len = honest_pi.len();
            let k = (*count as usize).min(len);
            let mut claimed = honest_pi.clone();
            let positions: Vec<usize> = match region % 5 {
                0 | 3 => (len - k..len).collect(),
                1 | 4 => (0..k).collect(),
                _ => (0..k).map(|j| (j * 7 + c.seed as usize) % len).collect(),
            };
            // what is actually proved
            let mut proved_w = snap.witnesses.clone();
            let mut proved_pi = snap.public_inputs.clone();
            if region % 5 >= 3 {
                // the claimed statement is the original one; the instance that is
                // PROVED has zero public inputs (and zeroed witnesses on those
                // rows) at the chosen positions - a verifier that loses those
                // entries of a long vector evaluates them as zero as well
                for p in &positions {
                    let (row, _) = proved_pi[*p];
                    proved_pi[*p].1 = F::zero();
                    if let Some(r) = layout.rows.get(row) {
                        for wi in r.w {
                            if wi >= 2 {
                                proved_w[wi] = F::zero();
                            }
                        }
                    }
                }
                let table = spec::wire_table(&layout, &proved_w);
                let mut dense = vec![F::zero(); layout.size()];
                for (r, v) in &proved_pi {
                    dense[*r] = *v;
                }
                if !spec::eval_rows(&layout, &table, &dense).is_empty() {
                    ctx.excluded("zeroed instance does not satisfy the circuit");
                    return Ok(());
                }
            } else {
                for (j, p) in positions.iter().enumerate() {
                    claimed[*p] += with.0 + F::from(j as u64 + 1);
                }
            }
            if claimed == proved_pi.iter().map(|p| p.1).collect::<Vec<F>>() {
                ctx.excluded("nothing forged");
                return Ok(());
            }
            let bl = crate::fe::f_stream(c.seed, 14);
            let mut b14 = [F::zero(); 14];
            b14.copy_from_slice(&bl);
            let dev = Deviation { transcript_pi: Some(claimed.clone()), ..Default::default() };
            let out = match refprover::prove(&keys, &layout, &srs, &proved_w, &proved_pi, &b14, Version::V3, &dev) {
                Ok(o) => o,
                Err(e) => {
                    ctx.label(&format!("reference prover stopped: {e}"));
                    return Ok(());
                }
            };
            let cls = format!(
                "malicious prover: proves one public-input vector, hashes another ({} of {} entries differ, {})",
                if k == 1 { "1" } else { "2+" },
                match len { 0..=15 => "<16", 16..=31 => "16-31", 32..=63 => "32-63", _ => "64+" },
                ["tail", "head", "spread", "tail, proved with zeros there", "head, proved with zeros there"][(*region % 5) as usize]
            );
            c03::compare(ctx, &cls, &verifier, &rv, &out.proof.to_bytes(), &claimed, v3, Some(false))?;
        }
        Attack::ZeroSelector { which, edits } => {
            if n > 64 {
                ctx.excluded("circuit too large for the reference prover");
                return Ok(());
            }
            let srs = refprover::srs_for(cap, &pp, n + 7);
            let mut keys = refprover::ref_keys(&layout, b"c02", &srs).ok_or_else(|| Fail::new("refprover-commit", "key"))?;
            let k = [spec::Q_ARITH, spec::Q_C, spec::Q_L, spec::Q_R][(*which % 4) as usize];
            if keys.q[k].iter().all(|c| *c == F::zero()) {
                ctx.excluded("selector is the zero polynomial anyway");
                return Ok(());
            }
            // the prover's own copy of the selector is zero; the verifier data
            // (commitments in keys.rv) are the circuit's
            keys.q[k] = Vec::new();
            let (_, w) = assignment(edits);
            // all-zero public inputs are what the identity without q_arith demands
            let zero_pi: Vec<(usize, F)> = snap.public_inputs.iter().map(|(r, _)| (*r, F::zero())).collect();
            let claimed: Vec<F> = zero_pi.iter().map(|p| p.1).collect();
            let bl = crate::fe::f_stream(c.seed, 14);
            let mut b14 = [F::zero(); 14];
            b14.copy_from_slice(&bl);
            let dev = Deviation { drop_remainder: true, ..Default::default() };
            let out = match refprover::prove(&keys, &layout, &srs, &w, &zero_pi, &b14, Version::V3, &dev) {
                Ok(o) => o,
                Err(e) => {
                    ctx.label(&format!("reference prover stopped: {e}"));
                    return Ok(());
                }
            };
            let cls = format!(
                "malicious prover: own copy of {} is the zero polynomial ({})",
                ["q_arith", "q_c", "q_l", "q_r"][(*which % 4) as usize],
                if out.divisible { "quotient exact" } else { "remainder dropped" }
            );
            for v in [PlonkVersion::V3, PlonkVersion::V2] {
                c03::compare(ctx, &cls, &verifier, &rv, &out.proof.to_bytes(), &claimed, v, Some(false))?;
            }
        }
        Attack::Degenerate => {
            let (p1, pi) = sys::prove(&prover, &program, c.seed).map_err(|e| Fail::new("prove-error", format!("{e:?}")))?;
            let honest = p1.to_bytes().to_vec();
            let id = dusk_bls12_381::G1Affine::identity().to_bytes();
            let zero = F::zero().to_bytes();
            let mut all = honest.clone();
            for f in 0..11 {
                all[c03::field_range(f)].copy_from_slice(&id);
            }
            let mut idc = all.clone();
            for f in 11..26 {
                all[c03::field_range(f)].copy_from_slice(&zero);
            }
            idc[528..].copy_from_slice(&honest[528..]);
            let mut ze = honest.clone();
            for f in 11..26 {
                ze[c03::field_range(f)].copy_from_slice(&zero);
            }
            let default = Proof::default().to_bytes().to_vec();
            for (name, b) in [("all-identity / all-zero", all), ("identity commitments, honest evaluations", idc), ("honest commitments, zero evaluations", ze), ("Proof::default()", default)] {
                for v in [PlonkVersion::V3, PlonkVersion::V2, PlonkVersion::V1] {
                    c03::compare(ctx, &format!("degenerate: {name}"), &verifier, &rv, &b, &pi, v, Some(false))?;
                }
            }
        }
    }
    ctx.sample(&format!("{:?}", std::mem::discriminant(&c.attack)), || {
        json!({"attack": format!("{:?}", c.attack).chars().take(120).collect::<String>(), "constraints": layout.rows.len()})
    });
    let _ = ProgramCircuit::default;
    Ok(())
}

pub fn props() -> Vec<(Box<dyn PropDyn>, u32, u32)> {
    vec![(Box::new(Prop::new("sound", case_strategy, check).shrink(80)), 1600, 30000)]
}

pub fn describe(ctx: &Ctx) {
    ctx.rule("adversarial proofs for generated circuits: (1) the real proving algorithm forced past its unsatisfied-circuit check (remainder dropped) on assignments the reference evaluator classifies as violating (witness overrides; one broken component of a raw row of each custom gate family), offered under V3/V2/V1 and with altered public inputs; (2) an independent malicious prover (harness/src/refprover.rs) with deviations {remainder dropped; arbitrary grand product and/or quotient with one of the 15 evaluations solved after the challenge so that the linearisation identity holds - the generalised unbound-evaluation attack; one evaluation shifted}; (3) all 52 single-field and all-but-one-field splices of two valid proofs; (4) degenerate proofs; (5) the two opening commitments of an honest or forced proof shifted as a cancelling pair computed from a folding challenge u learnt before the pair is absorbed (u is the one challenge the prover never computes, so only this attack distinguishes a verifier that derives it too early); (6) a prover that proves one public-input vector and hashes another (the claimed statement) into the transcript, the vectors differing in 1..17 entries at the tail / head / spread, on circuits with up to 130 public inputs; (7) a prover whose own copy of one opened selector polynomial (q_arith, q_c, q_l, q_r) is zero, so that its claimed evaluation 0 is consistent with everything in the proof but the circuit's selector commitment. Oracle: verify returns Err for every version without panicking and the reference verifier rejects too. non-trivial = the adversarial proof decodes and reaches the equation; distinct by hash of (proof bytes, label, version, public inputs)");
    ctx.assume("soundness against ALL prover strategies is not decided by exploration; only the listed strategies are covered (DESIGN.md section 8)");
}
