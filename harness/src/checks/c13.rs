//! C13 — subgroup boundary: only prime-order-subgroup points are admitted.

use dusk_plonk::prelude::{Composer, Error};
use proptest::prelude::*;
use serde::{Deserialize, Serialize};
use serde_json::json;

use crate::curve::{self, Pt};
use crate::ensure;
use crate::fe::{fe_random, fe_short, Fe, F};
use crate::gadget::{self, Gad};
use crate::prog::{Op, PtSpec};
use crate::runner::{no_panic, Ctx, Fail, PResult, Prop, PropDyn, Tier};

#[derive(Debug, Clone, Serialize, Deserialize)]
pub struct Case {
    /// class of the asserted coordinates, see `point_of`
    pub pclass: u8,
    pub k: Fe,
    pub t: u8,
    pub x: Fe,
    pub y: Fe,
    pub z: Fe,
    pub qseed: Fe,
    pub prove: bool,
    pub seed: u64,
}

fn case_strategy(_t: Tier) -> BoxedStrategy<Case> {
    (
        0u8..12,
        prop_oneof![1 => Just(Fe(F::zero())), 1 => Just(Fe(F::one())), 4 => fe_random()],
        0u8..8,
        fe_random(),
        fe_random(),
        prop_oneof![1 => Just(Fe(F::zero())), 1 => Just(Fe(F::one())), 2 => fe_random()],
        fe_random(),
        proptest::bool::weighted(0.08),
        any::<u64>(),
    )
        .prop_map(|(pclass, k, t, x, y, z, qseed, prove, seed)| Case {
            pclass,
            k,
            t,
            x,
            y,
            z,
            qseed,
            prove,
            seed,
        })
        .boxed()
}

/// Coordinates that make a denominator of the affine addition law vanish when
/// the pair is added to `other`: d x1 x2 y1 y2 = -1 (plus=false) or +1. (A
/// point can never be a pole of its own doubling: d is a non-square, so
/// d x^2 y^2 = +-1 has no solution.)
fn pole_partner(other: &Pt, seed: &F, plus: bool) -> Pt {
    let d = dusk_jubjub::EDWARDS_D;
    let mut x = *seed + F::one();
    loop {
        if let Some(inv) = (d * other.0 * other.1 * x).invert() {
            return (x, if plus { inv } else { -inv });
        }
        x += F::one();
    }
}

pub fn point_of(c: &Case) -> (Pt, &'static str) {
    let tors = curve::torsion_points();
    match c.pclass % 12 {
        0 | 1 => (curve::gmul(&c.k.0), "subgroup"),
        2 => (curve::identity(), "identity"),
        3 | 4 => {
            let t = (c.t % 7) + 1;
            (
                curve::add(&curve::gmul(&c.k.0), &tors[t as usize]).unwrap(),
                "torsion coset",
            )
        }
        5 => (tors[((c.t % 7) + 1) as usize], "pure torsion"),
        6 => ((c.x.0, c.y.0), "off-curve random"),
        7 => ((F::zero(), F::zero()), "(0,0)"),
        8 => (pole_partner(&curve::generator(), &c.x.0, false), "pole partner of G (x-denominator)"),
        9 => (pole_partner(&curve::generator(), &c.x.0, true), "pole partner of G (y-denominator)"),
        10 => (curve::curve_point_from_seed(c.seed % 1000), "random curve point"),
        _ => ((F::zero(), -F::one()), "order 2"),
    }
}

fn check(ctx: &Ctx, c: &Case) -> PResult {
    let (p, pname) = point_of(c);
    let member = curve::in_subgroup(&p);
    let cls = format!("assert_torsion_free {pname} {}", if member { "member" } else { "non-member" });
    ctx.eval(&cls);
    let pspec = PtSpec { kind: 2, k: Fe(F::zero()), t: 0, x: Fe(p.0), y: Fe(p.1), z: Fe(F::one()) };
    // the real component (honest auxiliary point)
    let real = no_panic("torsion-build-panic", || {
        Gad::build(vec![Op::PointWit(pspec.clone()), Op::TorsionFree(u16::MAX)], false)
    })?
    .map_err(|e| Fail::new("torsion-build-error", format!("{e:?}")))?;
    let unsat = real.honest_unsat();
    ensure!(
        unsat.is_empty() == member,
        if member { "torsion-free-rejects-member" } else { "torsion-free-accepts-non-member" },
        "assert_torsion_free_point on {pname} ({}, {}): honest circuit is {} but the point is {} the prime-order subgroup ({:?})",
        fe_short(&p.0), fe_short(&p.1),
        if unsat.is_empty() { "satisfiable" } else { "unsatisfiable" },
        if member { "in" } else { "not in" },
        unsat.first()
    );
    if c.prove {
        gadget::cross_check(&real, &real.wit, c.seed, "assert_torsion_free_point")?;
        ctx.label("cross-checked with the real prover");
    }
    // attacker-chosen auxiliary points through the seam
    let tors = curve::torsion_points();
    let mut qs: Vec<(&str, Pt)> = Vec::new();
    if curve::on_curve(&p) {
        let e = curve::eighth(&p);
        qs.push(("[8^-1]P", e));
        for i in 1..8 {
            qs.push(("[8^-1]P + torsion", curve::add(&e, &tors[i]).unwrap()));
        }
    }
    qs.push(("identity", curve::identity()));
    qs.push(("(0,0)", (F::zero(), F::zero())));
    qs.push(("off-curve random", (c.qseed.0, c.qseed.0.square() + F::one())));
    qs.push(("random curve point", curve::curve_point_from_seed(c.seed % 977 + 3)));
    qs.push(("P itself", p));
    if p.0 != F::zero() && p.1 != F::zero() {
        qs.push(("pole partner of P", pole_partner(&p, &c.qseed.0, c.seed % 2 == 0)));
    }
    qs.push(("random subgroup point", curve::gmul(&c.qseed.0)));
    for (qname, q) in qs {
        let twin = no_panic("torsion-build-panic", || {
            Gad::build(
                vec![Op::PointWit(pspec.clone()), Op::TorsionSeam { p: u16::MAX, q: (Fe(q.0), Fe(q.1)) }],
                false,
            )
        })?
        .map_err(|e| Fail::new("torsion-build-error", format!("{e:?}")))?;
        if twin.layout != real.layout {
            return Err(Fail::new(
                "torsion-shape-depends-on-values",
                format!("seam twin differs from the component's layout: {:?}", real.layout.first_diff(&twin.layout)),
            ));
        }
        ctx.add_evals(1);
        ctx.label(&format!("auxiliary point: {qname}"));
        let sat = twin.honest_unsat().is_empty();
        if sat && !member {
            let realp = twin.prove_assignment(&twin.wit, c.seed)?;
            return Err(Fail::new(
                "torsion-free-non-member-accepted",
                format!(
                    "assert_torsion_free_point on {pname} ({}, {}) is satisfied with auxiliary point '{qname}' (real prover+verifier: {realp:?})",
                    fe_short(&p.0), fe_short(&p.1)
                ),
            ));
        }
    }
    ctx.nontrivial_json(&(c.pclass, c.k, c.t, c.x, c.y));
    ctx.sample(&cls, || json!({"point": pname, "member": member}));

    entry_points(ctx, c)
}

fn spec_of(c: &Case) -> PtSpec {
    PtSpec {
        kind: c.pclass % 6,
        k: c.k,
        t: c.t,
        x: c.x,
        y: c.y,
        z: c.z,
    }
}

/// the native entry points accept exactly consistent subgroup members
fn entry_points(ctx: &Ctx, c: &Case) -> PResult {
    let s = spec_of(c);
    let ext = s.extended();
    let z_zero = ext.get_z() == F::zero();
    let member = s.is_member();
    let identity = member && s.affine() == Some(curve::identity());
    let cls = format!(
        "entry points: kind{} {}",
        s.kind,
        if z_zero { "Z=0" } else if member { "member" } else { "non-member" }
    );
    ctx.eval(&cls);
    let r = no_panic("entry-point-panic:append_point", || {
        let mut comp = Composer::initialized();
        comp.append_point(ext).map(|_| ())
    })?;
    ensure!(r.is_ok() != z_zero, "append-point-boundary", "append_point: {r:?} for Z{}0", if z_zero { "=" } else { "!=" });
    let r = no_panic("entry-point-panic:append_public_point", || {
        let mut comp = Composer::initialized();
        comp.append_public_point(ext).map(|_| ())
    })?;
    ensure!(r.is_ok() != z_zero, "append-public-point-boundary", "append_public_point: {r:?}");
    let r = no_panic("entry-point-panic:assert_equal_public_point", || {
        let mut comp = Composer::initialized();
        let p = comp.append_point(dusk_jubjub::GENERATOR).unwrap();
        comp.assert_equal_public_point(p, ext)
    })?;
    ensure!(r.is_ok() != z_zero, "assert-equal-public-point-boundary", "assert_equal_public_point: {r:?}");
    if z_zero {
        ctx.label(if matches!(r, Err(Error::JubJubPointDegenerate)) { "Z=0: JubJubPointDegenerate" } else { "Z=0: other error" });
    }
    let r = no_panic("entry-point-panic:append_constant_point", || {
        let mut comp = Composer::initialized();
        comp.append_constant_point(ext).map(|_| ())
    })?;
    ensure!(
        r.is_ok() == (member && !z_zero),
        if r.is_ok() { "constant-point-non-member-accepted" } else { "constant-point-member-rejected" },
        "append_constant_point on kind {} (member={member}, Z=0: {z_zero}): {r:?}",
        s.kind
    );
    let r = no_panic("entry-point-panic:component_mul_generator", || {
        let mut comp = Composer::initialized();
        let w = comp.append_witness(F::from(5u64));
        comp.component_mul_generator(w, ext).map(|_| ())
    })?;
    ensure!(
        r.is_ok() == (member && !z_zero && !identity),
        if r.is_ok() { "generator-non-member-accepted" } else { "generator-member-rejected" },
        "component_mul_generator generator kind {} (member={member}, identity={identity}, Z=0: {z_zero}): {r:?}",
        s.kind
    );
    ctx.nontrivial_json(&("e", s.kind, c.k, c.t, c.z));
    Ok(())
}

pub fn props() -> Vec<(Box<dyn PropDyn>, u32, u32)> {
    vec![(Box::new(Prop::new("boundary", case_strategy, check).shrink(200)), 6000, 60000)]
}

pub fn describe(ctx: &Ctx) {
    ctx.rule("cases: coordinate pairs {subgroup [k]G, identity, each torsion coset [k]G+T_t (orders 2,4,8), pure torsion, random off-curve, (0,0), both addition-law pole families, random curve point, order-2 point} x auxiliary points Q {[8^-1]P, its 7 torsion translates, identity, (0,0), off-curve, random curve point, P itself, pole-inducing, random subgroup point}; entry points on extended representations {affine, torsion, raw, Z=z consistent, Z=0, inconsistent T1*T2}. Oracle: membership = curve equation and [r_J]P = O computed with the harness's own affine arithmetic; satisfiability by the reference evaluator (honest circuit satisfiable iff member; no Q satisfies for a non-member); entry points Ok iff member (generator: and not identity), Z=0 => JubJubPointDegenerate, never a panic. non-trivial = every case; distinct by case");
}
