//! C01 (histories) — a *session* is a generated sequence of operations over a
//! small pool of circuits: compile (any route), re-compile, byte round trips
//! of prover and verifier, proving instances with *other witness values* than
//! the ones the keys were compiled from, and verifying any proof made so far
//! with any verifier of the pool. A trivial model (who made which proof for
//! which statement) predicts every verdict:
//!
//! * every `prove` of a satisfied instance succeeds, whatever happened before
//!   on that key (round trips, other instances, other circuits);
//! * a proof is accepted by a verifier iff the verifier's statement (layout,
//!   label) is the proof's statement and the versions agree;
//! * repeating a `prove` with the same instance and the same randomness at
//!   any later point of the history returns the same bytes (no hidden state
//!   survives between calls).

use std::sync::Arc;

use dusk_bytes::Serializable;
use dusk_plonk::prelude::{PlonkVersion, Prover, Verifier};
use proptest::prelude::*;
use serde::{Deserialize, Serialize};
use serde_json::json;

use crate::ensure;
use crate::fe::{f_stream, fe_any, pick, Fe, F};
use crate::prog::{self, Op, Pi, Program, PtSpec};
use crate::runner::{no_panic, Ctx, Fail, PResult, Tier};
use crate::spec::Layout;
use crate::sys::{self, err_name};

#[derive(Debug, Clone, Serialize, Deserialize)]
pub struct Circ {
    pub ops: Vec<Op>,
    pub label: Vec<u8>,
    pub route: u8,
    pub cap_extra: u8,
}

#[derive(Debug, Clone, Serialize, Deserialize)]
pub enum Step {
    Prove { c: u8, inst: u8, seed: u8, legacy: bool },
    Verify { proof: u16, c: u8 },
    ProverBytes(u8),
    VerifierBytes(u8),
    Recompile { c: u8, route: u8 },
}

#[derive(Debug, Clone, Serialize, Deserialize)]
pub struct Case {
    pub circuits: Vec<Circ>,
    pub steps: Vec<Step>,
    /// pad every circuit of the pool to the same constraint count and give
    /// all of them the first circuit's label (state keyed by label and size
    /// only would then confuse them)
    #[serde(default)]
    pub same_size_and_label: bool,
}

/// ops whose emitted constants do not depend on witness values in solve mode
/// ("functional" components: outputs are computed from inputs)
fn functional_op() -> BoxedStrategy<Op> {
    let r16 = || any::<u16>();
    prop_oneof![
        6 => fe_any().prop_map(Op::Wit),
        2 => fe_any().prop_map(Op::Const),
        4 => fe_any().prop_map(Op::Public),
        3 => (proptest::array::uniform5(prog::coeff()), prog::coeff(), [r16(), r16(), r16()], prog::pi_strategy())
            .prop_map(|(mut q, qc, w, pi)| {
                if q[4].0 == F::zero() {
                    q[4] = Fe(-F::one());
                }
                Op::EvalOut { q, qc, w, pi }
            }),
        3 => (prog::coeff(), prog::coeff(), prog::coeff(), prog::coeff(), [r16(), r16(), r16()], prog::pi_strategy())
            .prop_map(|(ql, qr, qf, qc, w, pi)| Op::GateAdd { ql, qr, qf, qc, w, pi }),
        3 => (prog::coeff(), prog::coeff(), prog::coeff(), [r16(), r16(), r16()], prog::pi_strategy())
            .prop_map(|(qm, qf, qc, w, pi)| Op::GateMul { qm, qf, qc, w, pi }),
        2 => r16().prop_map(Op::AssertEq),
        2 => any::<bool>().prop_map(Op::Boolean),
        2 => (r16(), r16(), r16()).prop_map(|(bit, a, b)| Op::Select { bit, a, b }),
        1 => (r16(), r16()).prop_map(|(bit, v)| Op::SelectOne { bit, v }),
        1 => (r16(), r16()).prop_map(|(bit, v)| Op::SelectZero { bit, v }),
        2 => (0u16..=64, fe_any()).prop_map(|(bits, v)| Op::RangeBits { bits, v }),
        1 => (any::<bool>(), 0u8..=12, r16(), r16()).prop_map(|(xor, pairs, a, b)| Op::Logic { xor, pairs, a, b }),
        1 => (0u8..=40, r16()).prop_map(|(n, a)| Op::Truncate { n, a }),
        1 => (1u16..=16, fe_any()).prop_map(|(n, v)| Op::Decompose { n, v }),
        2 => prog::subgroup_pt().prop_map(Op::PointWit),
        1 => prog::subgroup_pt().prop_map(Op::PointConst),
        1 => prog::subgroup_pt().prop_map(Op::PointPublic),
        1 => r16().prop_map(Op::AssertEqPoint),
        1 => r16().prop_map(Op::AssertEqPublicPoint),
        2 => (r16(), r16()).prop_map(|(p, q)| Op::AddPoint(p, q)),
        1 => (r16(), r16()).prop_map(|(p, q)| Op::SubPoint(p, q)),
        1 => r16().prop_map(Op::NegPoint),
        1 => (any::<bool>(), r16()).prop_map(|(bit, p)| Op::SelectIdentity { bit, p }),
        1 => (0u16..5).prop_map(Op::Pad),
    ]
    .boxed()
}

fn step_strategy() -> BoxedStrategy<Step> {
    prop_oneof![
        5 => (0u8..3, 0u8..4, 0u8..3, proptest::bool::weighted(0.15))
            .prop_map(|(c, inst, seed, legacy)| Step::Prove { c, inst, seed, legacy }),
        5 => (any::<u16>(), 0u8..3).prop_map(|(proof, c)| Step::Verify { proof, c }),
        1 => (0u8..3).prop_map(Step::ProverBytes),
        1 => (0u8..3).prop_map(Step::VerifierBytes),
        1 => (0u8..3, 0u8..3).prop_map(|(c, route)| Step::Recompile { c, route }),
    ]
    .boxed()
}

pub fn case_strategy(_t: Tier) -> BoxedStrategy<Case> {
    let circ = (
        proptest::collection::vec(functional_op(), 1..14),
        prop_oneof![
            3 => Just(b"session".to_vec()),
            1 => Just(b"session\0".to_vec()),
            1 => Just(b"sessioN".to_vec()),
            1 => proptest::collection::vec(any::<u8>(), 0..40),
        ],
        0u8..3,
        0u8..3,
    )
        .prop_map(|(ops, label, route, cap_extra)| Circ { ops, label, route, cap_extra });
    (
        proptest::collection::vec(circ, 1..=3),
        proptest::collection::vec(step_strategy(), 2..16),
        // with some probability the second circuit is a copy of the first
        // under the same or another label (same statement / label-only
        // difference)
        0u8..6,
    )
        .prop_map(|(mut circuits, mut steps, twin)| {
            // a history starts with a proof (verifications before any proof
            // exists are no-ops)
            steps.insert(0, Step::Prove { c: 0, inst: twin % 4, seed: 0, legacy: false });
            if circuits.len() >= 2 && twin < 2 {
                let (ops, label) = (circuits[0].ops.clone(), circuits[0].label.clone());
                circuits[1].ops = ops;
                if twin == 0 {
                    circuits[1].label = label;
                }
            }
            Case { circuits, steps, same_size_and_label: twin >= 4 }
        })
        .boxed()
}

/// the same component calls with other witness / public-input values
fn revalue(ops: &[Op], inst: u8) -> Vec<Op> {
    if inst == 0 {
        return ops.to_vec();
    }
    let vals = f_stream(0x5e55_0000 + inst as u64, 64);
    let mut k = 0usize;
    let mut next = || {
        k += 1;
        // a few boundary values among the random ones
        match (k + inst as usize) % 7 {
            0 => F::zero(),
            1 => -F::one(),
            _ => vals[k % vals.len()],
        }
    };
    let pi_re = |pi: &Pi, v: F| match pi {
        Pi::Val(_) => Pi::Val(Fe(v)),
        other => other.clone(),
    };
    ops.iter()
        .map(|op| match op {
            Op::Wit(_) => Op::Wit(Fe(next())),
            Op::Public(_) => Op::Public(Fe(next())),
            Op::EvalOut { q, qc, w, pi } => Op::EvalOut { q: *q, qc: *qc, w: *w, pi: pi_re(pi, next()) },
            Op::GateAdd { ql, qr, qf, qc, w, pi } => Op::GateAdd { ql: *ql, qr: *qr, qf: *qf, qc: *qc, w: *w, pi: pi_re(pi, next()) },
            Op::GateMul { qm, qf, qc, w, pi } => Op::GateMul { qm: *qm, qf: *qf, qc: *qc, w: *w, pi: pi_re(pi, next()) },
            Op::Boolean(b) => Op::Boolean(*b ^ (inst % 2 == 1)),
            Op::RangeBits { bits, .. } => Op::RangeBits { bits: *bits, v: Fe(next()) },
            Op::Decompose { n, .. } => Op::Decompose { n: *n, v: Fe(next()) },
            Op::PointWit(s) if s.kind == 0 => Op::PointWit(PtSpec::sub(next())),
            Op::PointPublic(s) if s.kind == 0 => Op::PointPublic(PtSpec::sub(next())),
            Op::SelectIdentity { bit, p } => Op::SelectIdentity { bit: *bit ^ (inst % 2 == 1), p: *p },
            other => other.clone(),
        })
        .collect()
}

struct Key {
    prover: Prover,
    verifier: Verifier,
    layout_digest: [u8; 32],
    label: Vec<u8>,
    constraints: usize,
    capacity: usize,
    /// identity of the statement: the verifier's bytes as first compiled
    /// (label, size, 15 commitments, opening key, public-input rows). Two
    /// circuits of the pool with equal bytes are the same statement.
    stmt: Vec<u8>,
}

struct Made {
    bytes: [u8; 1008],
    pi: Vec<F>,
    circuit: usize,
    legacy: bool,
    // (circuit, inst, seed, legacy) for the repeatability check
    key: (usize, u8, u8, bool),
}

pub fn check(ctx: &Ctx, c: &Case) -> PResult {
    // -- build and compile the pool
    let mut keys: Vec<Key> = Vec::new();
    let mut programs: Vec<Vec<Op>> = Vec::new();
    // optional equalisation: same label, same constraint count
    let mut pool: Vec<Circ> = c.circuits.clone();
    if c.same_size_and_label && pool.len() >= 2 {
        let mut sizes = Vec::new();
        for circ in &pool {
            let (composer, _) = no_panic("honest-build-panic", || prog::build(&Program::solved(circ.ops.clone())))?
                .map_err(|e| Fail::new("honest-build-error", format!("{e:?}")))?;
            sizes.push(composer.constraints());
        }
        let max = *sizes.iter().max().unwrap();
        let label = pool[0].label.clone();
        for (circ, n) in pool.iter_mut().zip(&sizes) {
            if max > *n {
                circ.ops.push(Op::Pad((max - n) as u16));
            }
            circ.label = label.clone();
        }
        ctx.label("session: pool with one label and one constraint count");
    }
    for (i, circ) in pool.iter().enumerate() {
        let program = Arc::new(Program::solved(circ.ops.clone()));
        let (composer, _) = no_panic("honest-build-panic", || prog::build(&program))?
            .map_err(|e| Fail::new("honest-build-error", format!("{e:?}")))?;
        let layout = Layout::from_snapshot(&composer.verif_snapshot());
        let n = composer.constraints();
        let cap = sys::min_capacity(n) + [0usize, 3, 16][circ.cap_extra as usize % 3];
        let pp = sys::pp(cap);
        let route = super::c01::route_of(circ.route);
        let (prover, verifier) = no_panic("compile-panic", || sys::compile(&pp, &circ.label, &program, route))?
            .map_err(|e| Fail::new(format!("compile-error:{}", err_name(&e)), format!("session circuit {i} route {route:?} capacity {cap} constraints {n}: {e:?}")))?;
        let stmt = verifier.to_bytes();
        keys.push(Key { prover, verifier, layout_digest: layout.digest(), label: circ.label.clone(), constraints: n, capacity: cap, stmt });
        programs.push(circ.ops.clone());
    }
    ctx.eval(&format!("session with {} circuit(s)", keys.len()));
    let nk = keys.len();
    let mut made: Vec<Made> = Vec::new();
    let mut accepted_own = 0u32;
    let mut rejected_foreign = 0u32;
    let mut other_values = false;
    let mut after_roundtrip = false;
    let mut roundtrips = 0u32;

    for (si, step) in c.steps.iter().enumerate() {
        match step {
            Step::Prove { c: ci, inst, seed, legacy } => {
                let ci = *ci as usize % nk;
                let ops = revalue(&programs[ci], *inst);
                let program = Arc::new(Program::solved(ops));
                // the instance must have the compiled shape (value-derived
                // constants are excluded by construction; if a solved constant
                // still moved, the instance is not one of this circuit)
                let (composer, trace) = no_panic("honest-build-panic", || prog::build(&program))?
                    .map_err(|e| Fail::new("honest-build-error", format!("{e:?}")))?;
                let layout = Layout::from_snapshot(&composer.verif_snapshot());
                if layout.digest() != keys[ci].layout_digest {
                    ctx.excluded("re-valued instance has another shape (value-derived constant)");
                    continue;
                }
                let version = if *legacy { PlonkVersion::V2 } else { PlonkVersion::V3 };
                let rs = 0xabc0 + *seed as u64 + 17 * *inst as u64;
                let (proof, pi) = no_panic("prove-panic", || sys::prove_version(&keys[ci].prover, &program, rs, version))?
                    .map_err(|e| Fail::new(
                        format!("prove-error:{}", err_name(&e)),
                        format!("step {si}: satisfied instance {inst} of session circuit {ci} ({} constraints) was refused: {e:?}", keys[ci].constraints),
                    ))?;
                ensure!(pi == trace.public, "public-inputs-returned", "step {si}: prover returned {} public inputs, model has {}", pi.len(), trace.public.len());
                let bytes = proof.to_bytes();
                let key = (ci, *inst, *seed, *legacy);
                if let Some(prev) = made.iter().find(|m| m.key == key) {
                    ensure!(
                        prev.bytes == bytes,
                        "prove-depends-on-history",
                        "step {si}: proving the same instance with the same randomness again returned other bytes than earlier in the session"
                    );
                    ctx.label("same prove repeated later in the history");
                }
                if *inst != 0 {
                    other_values = true;
                }
                if roundtrips > 0 {
                    after_roundtrip = true;
                }
                made.push(Made { bytes, pi, circuit: ci, legacy: *legacy, key });
            }
            Step::Verify { proof, c: ci } => {
                if made.is_empty() {
                    continue;
                }
                let m = &made[pick(*proof, made.len())];
                let ci = *ci as usize % nk;
                let same_statement = keys[ci].stmt == keys[m.circuit].stmt;
                let proof = dusk_plonk::prelude::Proof::from_bytes(&m.bytes).map_err(|e| Fail::new("proof-bytes-roundtrip", format!("{e:?}")))?;
                let rv = crate::refver::RefVerifier::parse(&keys[ci].verifier.to_bytes()).map_err(|e| Fail::new("refver-parse", e))?;
                let rp = crate::refver::RefProof::parse(&m.bytes).map_err(|e| Fail::new("refver-parse", e))?;
                for version in [PlonkVersion::V3, PlonkVersion::V2] {
                    let r = no_panic("verify-panic", || keys[ci].verifier.verify_with_version(&proof, &m.pi, version))?;
                    // the protocol's own transcript and equation, independent of
                    // anything the process did before
                    let reference = crate::refver::verify(&rv, &rp, &m.pi, crate::refver::version_of(version)).accept;
                    ensure!(
                        r.is_ok() == reference,
                        if r.is_ok() { "impl-accepts-reference-rejects" } else { "impl-rejects-reference-accepts" },
                        "step {si}: verifier {ci} on the proof of session circuit {} under {version:?}: implementation says {} but the protocol equation says {} (history-dependent state?)",
                        m.circuit, r.is_ok(), reference
                    );
                    let expect = same_statement && (m.legacy == (version == PlonkVersion::V2));
                    if expect {
                        r.map_err(|e| Fail::new(
                            "verify-rejects-honest",
                            format!("step {si}: honest proof of session circuit {} rejected by verifier {ci} of the same statement: {e:?}", m.circuit),
                        ))?;
                        accepted_own += 1;
                    } else {
                        ensure!(
                            r.is_err(),
                            "session-foreign-proof-accepted",
                            "step {si}: proof of session circuit {} (legacy={}) accepted by verifier {ci} under {version:?} although statement or version differ (same layout: {}, same label: {})",
                            m.circuit, m.legacy,
                            keys[ci].layout_digest == keys[m.circuit].layout_digest,
                            keys[ci].label == keys[m.circuit].label
                        );
                        rejected_foreign += 1;
                    }
                }
            }
            Step::ProverBytes(ci) => {
                let ci = *ci as usize % nk;
                let b = keys[ci].prover.to_bytes();
                keys[ci].prover = no_panic("prover-decode-panic", || Prover::try_from_bytes(&b))?
                    .map_err(|e| Fail::new("prover-bytes-roundtrip", format!("step {si}: Prover::try_from_bytes(to_bytes()) = {e:?}")))?;
                ensure!(keys[ci].prover.to_bytes() == b, "prover-bytes-roundtrip", "step {si}: decoded prover re-encodes differently");
                roundtrips += 1;
            }
            Step::VerifierBytes(ci) => {
                let ci = *ci as usize % nk;
                let b = keys[ci].verifier.to_bytes();
                keys[ci].verifier = no_panic("verifier-decode-panic", || Verifier::try_from_bytes(&b))?
                    .map_err(|e| Fail::new("verifier-bytes-roundtrip", format!("step {si}: Verifier::try_from_bytes(to_bytes()) = {e:?}")))?;
                ensure!(keys[ci].verifier.to_bytes() == b, "verifier-bytes-roundtrip", "step {si}: decoded verifier re-encodes differently");
                roundtrips += 1;
            }
            Step::Recompile { c: ci, route } => {
                let ci = *ci as usize % nk;
                let program = Arc::new(Program::solved(programs[ci].clone()));
                let cap = keys[ci].capacity;
                let route = super::c01::route_of(*route);
                let (p, v) = no_panic("compile-panic", || sys::compile(&sys::pp(cap), &keys[ci].label, &program, route))?
                    .map_err(|e| Fail::new(format!("compile-error:{}", err_name(&e)), format!("step {si}: re-compilation by route {route:?}: {e:?}")))?;
                // keys are a function of circuit, label and parameters
                ensure!(
                    v.to_bytes() == keys[ci].stmt && p.to_bytes() == keys[ci].prover.to_bytes(),
                    "recompiled-keys-differ",
                    "step {si}: compiling session circuit {ci} again (route {route:?}, same parameters) gave other keys"
                );
                keys[ci].prover = p;
                keys[ci].verifier = v;
                ctx.label("re-compiled mid-session");
            }
        }
    }
    if accepted_own > 0 {
        ctx.label("session: own proof accepted");
    }
    if rejected_foreign > 0 {
        ctx.label("session: foreign/other-version proof rejected");
    }
    if other_values {
        ctx.label("session: instance with other witness values than compiled");
    }
    if after_roundtrip {
        ctx.label("session: prove after a byte round trip");
    }
    if made.len() >= 2 && (accepted_own + rejected_foreign) > 0 {
        ctx.nontrivial_json(c);
        ctx.sample(&format!("session with {} circuit(s)", nk), || {
            json!({"circuits": c.circuits.iter().map(|x| x.ops.iter().map(|o| o.name()).collect::<Vec<_>>()).collect::<Vec<_>>(),
                   "steps": c.steps.iter().map(|s| format!("{s:?}")).collect::<Vec<_>>(),
                   "proofs": made.len(), "accepted": accepted_own, "rejected": rejected_foreign})
        });
    }
    Ok(())
}
