//! C16 — serialization round trips preserve keys, proofs and parameters;
//! proof encoding is canonical.

use std::sync::Arc;

use dusk_bytes::{DeserializableSlice, Serializable};
use dusk_plonk::prelude::{Proof, Prover, PublicParameters, Verifier};
use proptest::prelude::*;
use rand_chacha::ChaCha20Rng;
use rand_core::SeedableRng;
use serde::{Deserialize, Serialize};
use serde_json::json;

use crate::checks::c01;
use crate::ensure;
use crate::fe::{f_stream, fe_random, pick, Fe, F, R_MOD, U256};
use crate::naive;
use crate::prog::{self, Op, Pi, Program};
use crate::runner::{no_panic, Ctx, Fail, PResult, Prop, PropDyn, Tier};
use crate::spec::Layout;
use crate::sys::{self, Route};

#[derive(Debug, Clone, Serialize, Deserialize)]
pub struct KeyCase {
    pub ops: Vec<Op>,
    /// Some((log size, column mask, extra coefficients)): fill the domain with
    /// rows whose selected selector columns follow a low-degree polynomial
    pub lowdeg: Option<(u8, u8, Vec<Fe>)>,
    pub target: Option<(u32, i8)>,
    pub label: Vec<u8>,
    pub route: u8,
    pub seed: u64,
}

fn key_case(t: Tier) -> BoxedStrategy<KeyCase> {
    let max_k = t.pick(8u32, 11u32);
    (
        prop_oneof![3 => prog::ops_strategy(20, 3, 0), 1 => prog::ops_strategy(6, 1, 2), 2 => Just(Vec::new())],
        proptest::option::weighted(0.35, (3u8..=6, 1u8..32, proptest::collection::vec(fe_random(), 0..3))),
        // sizes up to 2^max_k; one padded case in twelve reaches 2^10 / 2^11 rows
        // (keys with 1024+ / 2048+ points and coefficients) also in the quick tier
        proptest::option::weighted(0.4, (prop_oneof![11 => (3u32..=max_k).boxed(), 1 => (10u32..=11).boxed()], -8i8..=8)),
        proptest::collection::vec(any::<u8>(), 0..20),
        0u8..3,
        any::<u64>(),
    )
        .prop_map(|(ops, lowdeg, target, label, route, seed)| KeyCase { ops, lowdeg, target, label, route, seed })
        .boxed()
}

/// values of the external selectors (q_m, q_l, q_r, q_o, q_f) on the four
/// fixed rows every circuit starts with
fn fixed_rows_external() -> [[F; 4]; 5] {
    let f = |x: u64| F::from(x);
    let m1 = -F::one();
    [
        [f(0), f(0), f(1), f(1)],   // q_m
        [m1, m1, f(2), f(1)],       // q_l
        [f(0), f(0), f(3), f(1)],   // q_r
        [f(0), f(0), f(4), f(1)],   // q_o
        [f(0), f(0), f(1), f(0)],   // q_f
    ]
}

/// rows 4..n of a full domain whose chosen selector columns are evaluations
/// of a polynomial of degree <= 3 + extra.len() agreeing with the fixed rows
fn lowdeg_ops(log_n: u8, mask: u8, extra: &[Fe]) -> Vec<Op> {
    let log_n = log_n as u32;
    let n = 1usize << log_n;
    let w = naive::omega(log_n);
    let pts: Vec<F> = (0..n).map(|i| naive::pow(w, i as u64)).collect();
    let fixed = fixed_rows_external();
    // per column: cubic through the four fixed values + Z4(X) * g(X)
    let mut cols: Vec<Option<Vec<F>>> = Vec::new();
    for k in 0..5 {
        if mask & (1 << k) == 0 {
            cols.push(None);
            continue;
        }
        // Lagrange cubic on pts[0..4]
        let mut cubic = vec![F::zero()];
        for i in 0..4 {
            let mut num = vec![F::one()];
            let mut den = F::one();
            for j in 0..4 {
                if i != j {
                    num = naive::poly_mul(&num, &[-pts[j], F::one()]);
                    den *= pts[i] - pts[j];
                }
            }
            cubic = naive::poly_add(&cubic, &naive::poly_scale(&num, &(fixed[k][i] * den.invert().unwrap())));
        }
        let mut z4 = vec![F::one()];
        for p in pts.iter().take(4) {
            z4 = naive::poly_mul(&z4, &[-*p, F::one()]);
        }
        let g: Vec<F> = extra.iter().map(|x| x.0).collect();
        let poly = naive::poly_add(&cubic, &naive::poly_mul(&z4, &g));
        cols.push(Some(pts.iter().map(|x| naive::horner(&poly, x)).collect()));
    }
    let zero = Fe(F::zero());
    (4..n)
        .map(|i| {
            let mut q = [zero; 5];
            for k in 0..5 {
                if let Some(c) = &cols[k] {
                    q[k] = Fe(c[i]);
                }
            }
            Op::Gate { q, qc: zero, w: [0, 0, 0, 0], pi: Pi::None }
        })
        .collect()
}

fn check_keys(ctx: &Ctx, c: &KeyCase) -> PResult {
    let (program, n) = match &c.lowdeg {
        Some((log_n, mask, extra)) => {
            // the generated rows fill the domain exactly; other ops are not mixed in
            let ops = lowdeg_ops(*log_n, *mask, extra);
            let p = Arc::new(Program::solved(ops));
            let (comp, _) = prog::build(&p).map_err(|e| Fail::new("honest-build-error", format!("{e:?}")))?;
            (p, comp.constraints())
        }
        None => c01::padded_program(&c.ops, c.target, 30000 + (c.seed & 1) as u16)?,
    };
    let pp = sys::pp(sys::min_capacity(n));
    let (prover, verifier) = sys::compile(&pp, &c.label, &program, c01::route_of(c.route))
        .map_err(|e| Fail::new("compile-error", format!("{e:?}")))?;
    let cls = format!("keys {} {}", if c.lowdeg.is_some() { "low-degree selector columns" } else { "generated program" }, c01::size_class(n));
    ctx.eval(&cls);

    // prover
    let pb = prover.to_bytes();
    ensure!(prover.serialized_size() == pb.len(), "prover-serialized-size", "serialized_size {} != encoded length {}", prover.serialized_size(), pb.len());
    let p2 = no_panic("prover-decode-panic", || Prover::try_from_bytes(&pb))?.map_err(|e| {
        Fail::new(
            "prover-bytes-not-decodable",
            format!("Prover::try_from_bytes(prover.to_bytes()) = {e:?} ({n} constraints, {})", if c.lowdeg.is_some() { "low-degree selector columns" } else { "generated program" }),
        )
    })?;
    ensure!(p2.to_bytes() == pb, "prover-reencode-differs", "decoded prover re-encodes differently");
    let (proof1, pi1) = sys::prove(&prover, &program, c.seed).map_err(|e| Fail::new("prove-error", format!("{e:?}")))?;
    let (proof2, pi2) = sys::prove(&p2, &program, c.seed).map_err(|e| Fail::new("decoded-prover-fails", format!("{e:?}")))?;
    ensure!(proof1.to_bytes() == proof2.to_bytes() && pi1 == pi2, "decoded-prover-different-proof", "decoded prover produced another proof from the same randomness");

    // verifier
    let vb = verifier.to_bytes();
    ensure!(verifier.serialized_size() == vb.len(), "verifier-serialized-size", "serialized_size {} != encoded length {}", verifier.serialized_size(), vb.len());
    let v2 = no_panic("verifier-decode-panic", || Verifier::try_from_bytes(&vb))?
        .map_err(|e| Fail::new("verifier-bytes-not-decodable", format!("{e:?}")))?;
    ensure!(v2.to_bytes() == vb, "verifier-reencode-differs", "decoded verifier re-encodes differently");
    let honest = proof1.to_bytes();
    let mut verdicts = 0;
    for m in 0..12u64 {
        let mut b = honest.to_vec();
        let mut pi = pi1.clone();
        if m > 0 {
            let s = crate::runner::splitmix(c.seed ^ m);
            if m % 3 == 0 && !pi.is_empty() {
                pi[(s as usize) % pi1.len()] += F::one();
            } else {
                let bit = 528 * 8 + (s as usize) % (480 * 8);
                b[bit / 8] ^= 1 << (bit % 8);
            }
        }
        let Ok(p) = Proof::from_slice(&b) else { continue };
        let a = verifier.verify(&p, &pi).is_ok();
        let d = v2.verify(&p, &pi).is_ok();
        ensure!(a == d, "decoded-verifier-different-verdict", "original verifier says {a}, decoded verifier says {d}");
        ensure!((m == 0) == a, "unexpected-verdict", "mutation {m}: verdict {a}");
        verdicts += 1;
    }
    ctx.add_evals(verdicts);
    // polynomial-length profile
    let (comp, _) = prog::build(&program).map_err(|e| Fail::new("honest-build-error", format!("{e:?}")))?;
    let layout = Layout::from_snapshot(&comp.verif_snapshot());
    let size = layout.size();
    let log = size.trailing_zeros();
    let lens: Vec<usize> = (0..11)
        .map(|k| naive::trim(naive::idft(&layout.rows.iter().map(|r| r.sel[k]).collect::<Vec<_>>(), log, F::one())).len())
        .filter(|_| size <= 256)
        .collect();
    if !lens.is_empty() {
        let prof = if lens.iter().all(|l| *l == lens[0]) {
            "all selector polynomials same length"
        } else if lens[0] < *lens.iter().max().unwrap() {
            "q_m shorter than another selector polynomial"
        } else {
            "mixed selector polynomial lengths"
        };
        ctx.label(prof);
        if lens.iter().any(|l| *l == 0) {
            ctx.label("some selector polynomial is zero");
        }
    }
    ctx.nontrivial(&pb[..pb.len().min(4096)]);
    ctx.sample(&cls, || json!({"constraints": n, "prover_bytes": pb.len(), "verifier_bytes": vb.len(), "selector_poly_lengths": lens}));
    Ok(())
}

// ------------------------------------------------------------ proofs

#[derive(Debug, Clone, Serialize, Deserialize)]
pub struct ProofCase {
    pub seed: u64,
    pub edits: Vec<(u8, u8, u16)>,
}

fn proof_case(_t: Tier) -> BoxedStrategy<ProofCase> {
    (any::<u64>(), proptest::collection::vec((0u8..26, 0u8..8, any::<u16>()), 1..4))
        .prop_map(|(seed, edits)| ProofCase { seed, edits })
        .boxed()
}

fn stock_proofs() -> &'static Vec<Vec<u8>> {
    static P: std::sync::OnceLock<Vec<Vec<u8>>> = std::sync::OnceLock::new();
    P.get_or_init(|| {
        let mut v = Vec::new();
        for i in 0..4u64 {
            let ops = vec![
                Op::Public(Fe(F::from(3 + i))),
                Op::RangeBits { bits: 8, v: Fe(F::from(200u64)) },
                Op::Logic { xor: true, pairs: 2, a: 65535, b: 30000 },
            ];
            let program = Arc::new(Program::solved(ops));
            let pp = sys::pp(512);
            let (prover, _) = sys::compile(&pp, b"c16", &program, Route::Instance).expect("compile");
            let (proof, _) = sys::prove(&prover, &program, i).expect("prove");
            v.push(proof.to_bytes().to_vec());
        }
        v.push(Proof::default().to_bytes().to_vec());
        v
    })
}

/// BLS12-381 base field modulus, big endian
const P_BE: [u8; 48] = [
    0x1a, 0x01, 0x11, 0xea, 0x39, 0x7f, 0xe6, 0x9a, 0x4b, 0x1b, 0xa7, 0xb6, 0x43, 0x4b, 0xac, 0xd7, 0x64, 0x77, 0x4b, 0x84, 0xf3, 0x85, 0x12, 0xbf,
    0x67, 0x30, 0xd2, 0xa0, 0xf6, 0xb0, 0xf6, 0x24, 0x1e, 0xab, 0xff, 0xfe, 0xb1, 0x53, 0xff, 0xff, 0xb9, 0xfe, 0xff, 0xff, 0xff, 0xff, 0xaa, 0xab,
];

fn add_p_be(x: &mut [u8]) -> bool {
    // x (48 bytes big endian, flags masked off by the caller) += p; returns
    // false on overflow of 381 bits
    let mut carry = 0u16;
    for i in (0..48).rev() {
        let s = x[i] as u16 + P_BE[i] as u16 + carry;
        x[i] = s as u8;
        carry = s >> 8;
    }
    carry == 0 && x[0] & 0xe0 == 0
}

fn check_proof(ctx: &Ctx, c: &ProofCase) -> PResult {
    let stock = stock_proofs();
    let mut b = stock[(c.seed as usize) % stock.len()].clone();
    let mut kinds = Vec::new();
    for (field, kind, pos) in &c.edits {
        let f = *field as usize % 26;
        let r = crate::checks::c03::field_range(f);
        if f < 11 {
            match kind % 8 {
                0 => { b[r.start] ^= 0x80; kinds.push("compression flag"); }
                1 => { b[r.start] ^= 0x40; kinds.push("infinity flag"); }
                2 => { b[r.start] ^= 0x20; kinds.push("sort flag"); }
                3 => {
                    let flags = b[r.start] & 0xe0;
                    b[r.start] &= 0x1f;
                    let ok = add_p_be(&mut b[r.clone()]);
                    b[r.start] |= flags;
                    kinds.push(if ok { "x + p" } else { "x + p (overflow)" });
                }
                4 => {
                    // infinity encoding with junk in the coordinate
                    for x in b[r.clone()].iter_mut() { *x = 0; }
                    b[r.start] = 0xc0;
                    b[r.start + 1 + (*pos as usize % 47)] = 1;
                    kinds.push("infinity with junk");
                }
                5 => {
                    for x in b[r.clone()].iter_mut() { *x = 0; }
                    b[r.start] = 0xc0 | 0x20;
                    kinds.push("infinity with sort flag");
                }
                _ => {
                    let bit = pick(*pos, 48 * 8);
                    b[r.start + bit / 8] ^= 1 << (bit % 8);
                    kinds.push("commitment bit flip");
                }
            }
        } else {
            match kind % 4 {
                0 => {
                    // scalar + r (little endian), if it fits 256 bits
                    let mut a = [0u8; 32];
                    a.copy_from_slice(&b[r.clone()]);
                    let (s, carry) = U256::from_le_bytes(&a).add(R_MOD);
                    if !carry {
                        b[r.clone()].copy_from_slice(&s.to_le_bytes());
                    }
                    kinds.push("scalar + r");
                }
                1 => { for x in b[r.clone()].iter_mut() { *x = 0xff; } kinds.push("scalar 2^256-1"); }
                2 => { b[r.clone()].copy_from_slice(&R_MOD.to_le_bytes()); kinds.push("scalar = r"); }
                _ => {
                    let bit = pick(*pos, 32 * 8);
                    b[r.start + bit / 8] ^= 1 << (bit % 8);
                    kinds.push("scalar bit flip");
                }
            }
        }
    }
    let r = no_panic("proof-decode-panic", || Proof::from_slice(&b))?;
    let cls = format!("{} -> {}", kinds.join("+"), if r.is_ok() { "accepted" } else { "rejected" });
    ctx.eval(&cls);
    if let Ok(p) = r {
        ensure!(
            p.to_bytes()[..] == b[..],
            "proof-encoding-not-canonical",
            "an accepted 1008-byte string re-encodes differently (edits: {})",
            kinds.join("+")
        );
        let p3 = Proof::from_bytes(&p.to_bytes()).map_err(|e| Fail::new("proof-roundtrip", format!("{e:?}")))?;
        ensure!(p3 == p, "proof-roundtrip", "decode(encode(p)) != p");
        ctx.nontrivial(&b);
    } else if kinds.len() == 1 {
        ctx.nontrivial(&b);
    }
    ctx.sample(&cls, || json!({"edits": kinds}));
    Ok(())
}

// ------------------------------------------------------------ parameters

#[derive(Debug, Clone, Serialize, Deserialize)]
pub struct PpCase {
    pub degree: u16,
    pub seed: u64,
}

fn pp_case(t: Tier) -> BoxedStrategy<PpCase> {
    // mostly small degrees; one case in ten has 1024+ / 2048+ (4096+ in
    // thorough) points, where size-gated (parallel) code paths would start
    let big = if t == Tier::Thorough {
        prop_oneof![Just(1010u16), Just(1016u16), Just(1017u16), Just(1018u16), Just(1024u16), Just(2041u16), Just(2048u16), Just(4089u16), Just(4096u16)].boxed()
    } else {
        prop_oneof![Just(1016u16), Just(1017u16), Just(1018u16), Just(1024u16), Just(2041u16)].boxed()
    };
    (prop_oneof![9 => (1u16..=t.pick(120u16, 300u16)).boxed(), 1 => big], any::<u64>()).prop_map(|(degree, seed)| PpCase { degree, seed }).boxed()
}

fn check_pp(ctx: &Ctx, c: &PpCase) -> PResult {
    let n = c.degree as usize;
    let mut rng = ChaCha20Rng::seed_from_u64(c.seed);
    let pp = PublicParameters::setup(n, &mut rng).map_err(|e| Fail::new("setup-error", format!("{e:?}")))?;
    ctx.eval(if n + 7 >= 1024 { "public parameters (1024+ points)" } else { "public parameters" });
    let b = pp.to_var_bytes();
    let d = no_panic("pp-decode-panic", || PublicParameters::from_slice(&b))?.map_err(|e| Fail::new("pp-bytes-not-decodable", format!("{e:?}")))?;
    ensure!(d.to_var_bytes() == b, "pp-reencode-differs", "checked encoding does not round trip");
    ensure!(d.max_degree() == pp.max_degree(), "pp-degree", "degree changed");
    let raw = pp.to_raw_var_bytes();
    // trusted-source decoder on the crate's own output
    let u = no_panic("pp-unchecked-decode-panic", || unsafe { PublicParameters::from_slice_unchecked(&raw) })?;
    ensure!(u.to_var_bytes() == b && u.to_raw_var_bytes() == raw, "pp-raw-roundtrip", "raw encoding does not round trip");
    // same compiled keys from the decoded parameters
    if n >= 16 {
        let program = Arc::new(Program::solved(vec![Op::Public(Fe(F::from(c.seed % 1000))), Op::Wit(Fe(f_stream(c.seed, 1)[0]))]));
        let k1 = sys::compile(&pp, b"pp", &program, Route::Instance);
        let k2 = sys::compile(&d, b"pp", &program, Route::Instance);
        let k3 = sys::compile(&u, b"pp", &program, Route::Instance);
        match (k1, k2, k3) {
            (Ok((p1, v1)), Ok((p2, v2)), Ok((p3, v3))) => {
                ensure!(p1.to_bytes() == p2.to_bytes() && v1.to_bytes() == v2.to_bytes(), "pp-decoded-different-keys", "keys differ after the checked round trip");
                ensure!(p1.to_bytes() == p3.to_bytes() && v1.to_bytes() == v3.to_bytes(), "pp-decoded-different-keys", "keys differ after the raw round trip");
                ctx.label("compiled keys identical from decoded parameters");
            }
            (Err(_), Err(_), Err(_)) => {}
            _ => return Err(Fail::new("pp-decoded-different-keys", "compilation succeeds for one copy of the parameters only")),
        }
    }
    ctx.nontrivial(&b[..b.len().min(2000)]);
    ctx.sample("pp", || json!({"degree": n, "bytes": b.len(), "raw_bytes": raw.len()}));
    Ok(())
}

pub fn props() -> Vec<(Box<dyn PropDyn>, u32, u32)> {
    vec![
        (Box::new(Prop::new("keys", key_case, check_keys).shrink(100)), 320, 5000),
        (Box::new(Prop::new("proof", proof_case, check_proof).shrink(400)), 20000, 400000),
        (Box::new(Prop::new("pp", pp_case, check_pp).shrink(60)), 96, 1200),
    ]
}

pub fn describe(ctx: &Ctx) {
    ctx.rule("keys: generated programs (all components, sizes 2^k+-8 up to 2^8 quick / 2^11 thorough, three compile routes) AND full-domain circuits whose selector columns are evaluations of low-degree polynomials through the fixed rows (so individual selector polynomials are shorter than others or zero) -> Prover/Verifier encode, decode, re-encode identical, serialized_size = length, decoded prover + same randomness = identical proof, decoded verifier = same verdict on the honest and 11 mutated triples. proofs: 1008-byte strings from valid proofs with 1..3 structure-aware edits (compression/infinity/sort flags, x+p, infinity with junk, scalar+r, scalar=r, 2^256-1, bit flips): every accepted string re-encodes to itself. parameters: setup(1..120/300, and one case in ten with 1023..4103 points) checked and raw round trips, same compiled keys. non-trivial: distinct artefact bytes; a rejected string counts only when it carries a single edit");
}
