//! C12 — curve-group components compute the JubJub group law.

use proptest::prelude::*;
use serde::{Deserialize, Serialize};
use serde_json::json;

use crate::curve::{self, Pt};
use crate::ensure;
use crate::fe::{f_int, f_of, f_pow2, fe_random, fe_short, Fe, F, RJ_MOD, U256};
use crate::gadget::{self, Gad};
use crate::prog::{Op, PtSpec};
use crate::runner::{no_panic, Ctx, Fail, PResult, Prop, PropDyn, Tier};

#[derive(Debug, Clone, Serialize, Deserialize)]
pub struct Case {
    /// 0 add, 1 sub, 2 neg, 3 select_identity, 4 select_point, 5 mul_point
    pub op: u8,
    pub k1: Fe,
    /// 0 random, 1 equal to P, 2 -P, 3 identity
    pub qclass: u8,
    pub k2: Fe,
    pub bit: u8,
    pub sclass: u8,
    pub s: Fe,
    pub r: Fe,
    pub prove: bool,
    pub seed: u64,
}

fn kclass() -> BoxedStrategy<Fe> {
    prop_oneof![
        1 => Just(Fe(F::zero())),
        2 => Just(Fe(F::one())),
        1 => Just(Fe(f_of(RJ_MOD.sub(U256::ONE).0))),
        2 => (2u64..9).prop_map(|x| Fe(F::from(x))),
        3 => fe_random(),
    ]
    .boxed()
}

fn case_strategy(t: Tier) -> BoxedStrategy<Case> {
    let mul_weight = t.pick(1u32, 3u32);
    (
        prop_oneof![
            6 => Just(0u8), 3 => Just(1u8), 3 => Just(2u8), 4 => Just(3u8), 4 => Just(4u8),
            mul_weight => Just(5u8)
        ],
        kclass(),
        0u8..4,
        kclass(),
        0u8..6,
        0u8..7,
        fe_random(),
        fe_random(),
        proptest::bool::weighted(0.1),
        any::<u64>(),
    )
        .prop_map(|(op, k1, qclass, k2, bit, sclass, s, r, prove, seed)| Case {
            op,
            k1,
            qclass,
            k2,
            bit,
            sclass,
            s,
            r,
            prove,
            seed,
        })
        .boxed()
}

fn scalar_of(class: u8, s: &F) -> F {
    match class % 7 {
        0 => F::zero(),
        1 => F::one(),
        2 => f_of(RJ_MOD.sub(U256::ONE).0),
        3 => f_of(RJ_MOD),
        4 => f_pow2(252) - F::one(),
        5 => F::from(s.to_bytes()[0] as u64),
        _ => f_of(f_int(s).low_bits(252)),
    }
}

const OPS: [&str; 6] = [
    "component_add_point",
    "component_sub_point",
    "component_neg_point",
    "component_select_identity",
    "component_select_point",
    "component_mul_point",
];

/// ops introducing two witness points with established membership, then the
/// component under test. Handles: pts[0]=identity, pts[1]=P (untyped),
/// pts[2]=P typed, pts[3]=Q untyped, pts[4]=Q typed.
fn program(c: &Case, k1: F, k2: F, bitv: F, s: F) -> Vec<Op> {
    // a third of the cases hand the points over in a consistent extended
    // representation with Z != 1 (same points, other coordinates)
    let rep = |k: F, salt: u64| -> PtSpec {
        if (c.seed ^ salt) % 3 == 0 {
            PtSpec { kind: 3, k: Fe(k), t: 0, x: Fe(F::zero()), y: Fe(F::zero()), z: Fe(F::from(2 + (c.seed >> 7) % 1000)) }
        } else {
            PtSpec::sub(k)
        }
    };
    let mut ops = vec![
        Op::PointWit(rep(k1, 0)),
        Op::TorsionFree(u16::MAX),
        Op::PointWit(rep(k2, 1)),
        Op::TorsionFree(u16::MAX),
    ];
    // typed handles: tfs = [identity, P, Q] -> picks 0, 1/3, 2/3
    let tp = 21846u16; // pick(.,3) = 1
    let tq = 43691u16; // pick(.,3) = 2
    match c.op % 6 {
        0 => ops.push(Op::AddPoint(tp, tq)),
        1 => ops.push(Op::SubPoint(tp, tq)),
        2 => ops.push(Op::NegPoint(tp)),
        3 => ops.push(Op::SelectIdentity { bit: bitv == F::one(), p: tp }),
        4 => {
            ops.push(Op::Wit(Fe(bitv)));
            // untyped handles: [id, P, P(typed), Q, Q(typed)] -> P = 1/5, Q = 3/5
            ops.push(Op::SelectPoint { bit: u16::MAX, p: 13108, q: 39322 });
        }
        _ => ops.push(Op::MulPoint { s: Fe(s), p: tp }),
    }
    ops
}

fn check(ctx: &Ctx, c: &Case) -> PResult {
    let k1 = c.k1.0;
    let k2 = match c.qclass % 4 {
        0 => c.k2.0,
        1 => k1,
        2 => -k1,
        _ => F::zero(),
    };
    // -k1 in the BLS field is not -k1 mod r_J: use the subgroup negative
    let k2 = if c.qclass % 4 == 2 {
        let k = {
            let mut u = f_int(&k1);
            while !u.lt(RJ_MOD) {
                u = u.sub(RJ_MOD).0;
            }
            u
        };
        if k == U256::ZERO { F::zero() } else { f_of(RJ_MOD.sub(k).0) }
    } else {
        k2
    };
    let bitv = match c.bit % 6 {
        0 | 1 => F::zero(),
        2 | 3 => F::one(),
        4 => F::from(2u64),
        _ => -F::one(),
    };
    let op = c.op % 6;
    // select_identity takes its bit through the op (boolean by construction)
    let bit_for_prog = if op == 3 { if c.bit % 2 == 0 { F::zero() } else { F::one() } } else { bitv };
    let s = scalar_of(c.sclass, &c.s.0);
    let ops = program(c, k1, k2, bit_for_prog, s);
    let g = no_panic("curve-build-panic", || Gad::build(ops.clone(), true))?
        .map_err(|e| Fail::new("curve-build-error", format!("{e:?}")))?;
    let p: Pt = curve::gmul(&k1);
    let q: Pt = curve::gmul(&k2);
    let cls = format!(
        "{} {}",
        OPS[op as usize],
        match c.qclass % 4 {
            0 => "P,Q",
            1 => "P,P",
            2 => "P,-P",
            _ => "P,O",
        }
    );
    ctx.eval(&cls);

    // expected result by the affine group law written in the harness
    let want: Pt = match op {
        0 => curve::add(&p, &q).unwrap(),
        1 => curve::add(&p, &curve::neg(&q)).unwrap(),
        2 => curve::neg(&p),
        3 => if bit_for_prog == F::one() { p } else { curve::identity() },
        4 => (bitv * p.0 + (F::one() - bitv) * q.0, bitv * p.1 + (F::one() - bitv) * q.1),
        _ => curve::mul(&f_int(&s).low_bits(252), &p).unwrap(),
    };
    let last_pt = g.trace.pts.len() - 1;
    let rx = g.trace.pts[last_pt].x().index();
    let ry = g.trace.pts[last_pt].y().index();
    ensure!(
        (g.wit[rx], g.wit[ry]) == want,
        "curve-value",
        "{} returned a point different from the group law ({cls})",
        OPS[op as usize]
    );
    let unsat = g.honest_unsat();
    ensure!(
        unsat.is_empty(),
        "curve-unsatisfiable",
        "{} on subgroup points is not satisfiable ({cls}): {:?}",
        OPS[op as usize],
        unsat.first()
    );
    if c.prove && op != 5 {
        gadget::cross_check(&g, &g.wit, c.seed, "honest curve circuit")?;
        ctx.label("cross-checked with the real prover");
    }
    let comp_op = g.program.ops.len() - 1;

    // role-free adversary: wires for other inputs, inputs put back
    {
        let mut c2 = c.clone();
        c2.qclass = 0;
        let ok1 = c.r.0;
        let ok2 = c.r.0 + F::one();
        let s2 = scalar_of(6, &c.r.0);
        let ops2 = program(&c2, ok1, ok2, bit_for_prog, s2);
        let other = Gad::build(ops2, true).map_err(|e| Fail::new("curve-build-error", format!("{e:?}")))?;
        // inputs: everything allocated before the component op
        let (first_gadget_wit, _) = g.op_wits(comp_op);
        let mut inputs: Vec<usize> = (0..first_gadget_wit).collect();
        if op == 5 {
            // the scalar witness is allocated by the op itself (first)
            inputs.push(first_gadget_wit);
        }
        match gadget::transplant(&g, &other, &inputs) {
            Some(asg) => {
                ctx.add_evals(1);
                ctx.label("adversary: transplant");
                if g.eval(&asg).is_empty() && (asg[rx], asg[ry]) != want {
                    let real = g.prove_assignment(&asg, c.seed)?;
                    return Err(Fail::new(
                        "curve-result-decoupled-from-input",
                        format!("{}: wires computed for other inputs satisfy every row with a different result (real: {real:?})", OPS[op as usize]),
                    ));
                }
            }
            None => return Err(Fail::new("curve-shape-depends-on-values", "two builds differ in layout")),
        }
    }

    // forged helper wires / outputs of the final addition row
    if matches!(op, 0 | 1 | 5) {
        // the last three witnesses of an addition are [x1*y2, x3, y3]
        let (_, end) = g.op_wits(comp_op);
        let base = end - 3;
        let (x1y2, x3, y3) = (g.wit[base], g.wit[base + 1], g.wit[base + 2]);
        let other = curve::gmul(&c.r.0);
        let cands: Vec<(&str, [F; 3])> = vec![
            ("x1*y2 + 1", [x1y2 + F::one(), x3, y3]),
            ("another curve point as the sum", [x1y2, other.0, other.1]),
            ("x3 + 1", [x1y2, x3 + F::one(), y3]),
            ("y3 + 1", [x1y2, x3, y3 + F::one()]),
            ("-x3", [x1y2, -x3, y3]),
            ("(x3, -y3)", [x1y2, x3, -y3]),
            ("zero helper wire", [F::zero(), x3, y3]),
        ];
        for (name, v) in cands {
            let asg = g.with(&[(base, v[0]), (base + 1, v[1]), (base + 2, v[2])]);
            if op != 5 && gadget::maybe_cross(&g, &asg, c.seed, name.len(), 30, "curve adversarial assignment")? {
                ctx.label("adversarial assignment cross-checked with the real prover");
            }
            ctx.add_evals(1);
            ctx.label(&format!("adversary: {name}"));
            if g.eval(&asg).is_empty() && (asg[rx], asg[ry]) != want {
                let real = g.prove_assignment(&asg, c.seed)?;
                return Err(Fail::new(
                    "curve-forged-sum-accepted",
                    format!("{}: '{name}' satisfies every row with a result off the group law (real: {real:?})", OPS[op as usize]),
                ));
            }
        }
    }
    // algebraic adversary: for every selected variable-base row of the gadget
    // whose FIRST or SECOND addend is a point the gadget itself allocated
    // (prover-chosen), put the other solution of the row's two output
    // equations into that slot (the equations are linear in the output but
    // quadratic in an addend)
    {
        let (g0, g1) = g.op_gates(comp_op);
        let (w0, _) = g.op_wits(comp_op);
        let d = dusk_jubjub::EDWARDS_D;
        for row in g0..g1.min(g.layout.rows.len().saturating_sub(1)) {
            let r = &g.layout.rows[row];
            if r.sel[crate::spec::Q_VAR] == F::zero() {
                continue;
            }
            let nx = &g.layout.rows[row + 1];
            let (ix1, iy1, ix2, iy2) = (r.w[0], r.w[1], r.w[2], r.w[3]);
            let (ix3, iy3, ih) = (nx.w[0], nx.w[1], nx.w[3]);
            let (x1, y1, x2, y2, x3, y3) = (g.wit[ix1], g.wit[iy1], g.wit[ix2], g.wit[iy2], g.wit[ix3], g.wit[iy3]);
            // first addend prover-chosen?
            for slot in 0..2 {
                let (iu, iv, ou, ov) = if slot == 0 { (ix1, iy1, x2, y2) } else { (ix2, iy2, x1, y1) };
                if iu < w0 || iv < w0 || iu == iv {
                    continue;
                }
                let (u0, v0) = (g.wit[iu], g.wit[iv]);
                // unknown (u, v), other addend (ou, ov):
                //   u*ov' + v*ou' ... written symmetrically: the law is
                //   x3 (1 + d u v ou ov) = u*ov + v*ou ; y3 (1 - d u v ou ov) = v*ov + u*ou
                // y3*E1 + x3*E2 cancels the cross term: u*A + v*B = 2 x3 y3
                let a_c = y3 * ov + x3 * ou;
                let b_c = y3 * ou + x3 * ov;
                let Some(b_inv) = b_c.invert() else { continue };
                // v = (2 x3 y3 - u A)/B = m + k u
                let m = F::from(2u64) * x3 * y3 * b_inv;
                let k = -a_c * b_inv;
                // E1: u ov + (m + k u) ou - x3 - x3 d ou ov u (m + k u) = 0
                // quadratic c2 u^2 + c1 u + c0
                let e = x3 * d * ou * ov;
                let c2 = -e * k;
                let c1 = ov + k * ou - e * m;
                let Some(c2_inv) = c2.invert() else { continue };
                // Vieta: the other root
                let u1 = -c1 * c2_inv - u0;
                let v1 = m + k * u1;
                if (u1, v1) == (u0, v0) {
                    continue;
                }
                // helper wire x1*y2 of this row
                let h = if slot == 0 { u1 * y2 } else { x1 * v1 };
                let asg = g.with(&[(iu, u1), (iv, v1), (ih, h)]);
                ctx.add_evals(1);
                ctx.label("adversary: second solution of an addition row for a prover-chosen addend");
                let got = (asg[rx], asg[ry]);
                if g.eval(&asg).is_empty() && got != want {
                    let real = g.prove_assignment(&asg, c.seed)?;
                    return Err(Fail::new(
                        "curve-addend-not-unique",
                        format!(
                            "{}: a prover-chosen addend of a curve-addition row has a second solution; every row is satisfied and the returned point is off the group law (real prover+verifier: {real:?})",
                            OPS[op as usize]
                        ),
                    ));
                }
                let _ = (x1, y1);
            }
        }
    }
    // model-free adversary: the returned coordinates (or one internal wire)
    // decided by the prover, inputs kept, all other wires re-solved row by row
    // (arithmetic rows; a curve-addition row that breaks ends the attempt)
    {
        let (first_gadget_wit, _) = g.op_wits(comp_op);
        let mut inputs: Vec<usize> = (0..first_gadget_wit).collect();
        if op == 5 || op == 3 {
            // the scalar / the selection bit is allocated by the harness op
            // itself (first witness): it is an input of the component
            inputs.push(first_gadget_wit);
        }
        let other = curve::gmul(&(c.r.0 + F::from(3u64)));
        let neg = curve::neg(&want);
        for (name, fx, fy) in [("another subgroup point", other.0, other.1), ("the negated result", neg.0, neg.1), ("x + 1", want.0 + F::one(), want.1)] {
            if (fx, fy) == want || inputs.contains(&rx) || inputs.contains(&ry) {
                continue;
            }
            let mut pins: Vec<(usize, F)> = inputs.iter().map(|i| (*i, g.wit[*i])).collect();
            pins.push((rx, fx));
            pins.push((ry, fy));
            ctx.add_evals(1);
            ctx.label("adversary: propagation from forged result coordinates");
            if let Some(msg) = gadget::propagation_attack(&g, &pins, c.seed, &format!("{} ({cls}), returned point forced to {name}", OPS[op as usize]), |_| true)? {
                return Err(Fail::new("curve-resolved-wires-accepted", msg));
            }
        }
        if matches!(op, 3 | 4 | 5) {
            let (k, hit) = gadget::wire_perturbation_attacks(&g, comp_op, &inputs, 4, c.seed ^ 0xc12, c.seed, &format!("{} ({cls})", OPS[op as usize]), |asg| (asg[rx], asg[ry]) != want)?;
            ctx.add_evals(k);
            ctx.label_n("adversary: single-wire perturbation + propagation", k);
            if let Some(msg) = hit {
                return Err(Fail::new("curve-resolved-wires-accepted", msg));
            }
        }
    }
    // select_identity must reject non-boolean bits
    if op == 3 {
        let (start, _) = g.op_wits(comp_op);
        // allocation: [bit, x_out (gate_mul output), y_out (select_one)]
        for t in [F::from(2u64), -F::one(), c.r.0] {
            if t == F::zero() || t == F::one() {
                continue;
            }
            let asg = g.with(&[
                (start, t),
                (start + 1, t * p.0),
                (start + 2, F::one() - t + t * p.1),
            ]);
            ctx.add_evals(1);
            ctx.label("adversary: non-boolean select bit");
            ensure!(
                !g.eval(&asg).is_empty(),
                "select-identity-non-boolean-accepted",
                "component_select_identity is satisfiable for bit = {}",
                fe_short(&t)
            );
        }
    }
    ctx.nontrivial_json(&(op, c.k1, c.qclass, c.k2, c.bit, c.sclass, c.s));
    ctx.sample(&cls, || json!({"op": OPS[op as usize], "k1": fe_short(&k1), "k2": fe_short(&k2), "bit": fe_short(&bitv), "scalar": fe_short(&s)}));
    Ok(())
}

pub fn props() -> Vec<(Box<dyn PropDyn>, u32, u32)> {
    vec![(Box::new(Prop::new("group", case_strategy, check).shrink(120)), 5000, 60000)]
}

pub fn describe(ctx: &Ctx) {
    ctx.rule("cases: component in {add, sub, neg, select_identity, select_point, mul_point} x subgroup points P=[k1]G, Q in {random, P, -P, identity} (k in {0, 1, r_J-1, small, random}) x scalars {0, 1, r_J-1, r_J, 2^252-1, small, random < 2^252} x bits {0, 1, 2, -1}; inputs enter as witnesses (a third of them in a consistent extended representation with Z != 1) with assert_torsion_free_point. Oracle: affine twisted-Edwards law written in the harness (not dusk-jubjub's group code); satisfiability by the reference evaluator; adversaries {wires of other inputs with the inputs put back, forged x1*y2, another curve point / x3+-1 / y3+-1 / negated coordinates as the sum, non-boolean select bit, second solution of an addition row for a prover-chosen addend, and the model-free propagation adversary (returned coordinates or one internal wire decided by the prover, inputs kept, arithmetic rows re-solved)}. non-trivial = every case; distinct by full case");
    ctx.assume("mul_point's internal chain is attacked through the transplant adversary and its final addition row only");
}
