//! C09 — the range check admits exactly [0, 2^BITS).

use proptest::prelude::*;
use serde::{Deserialize, Serialize};
use serde_json::json;

use crate::ensure;
use crate::fe::{f_int, f_of, f_pow2, fe_random, Fe, F, R_MOD, U256};
use crate::gadget::{self, Gad};
use crate::prog::Op;
use crate::runner::{no_panic, Ctx, Fail, PResult, Prop, PropDyn, Tier};

#[derive(Debug, Clone, Serialize, Deserialize)]
pub struct Case {
    pub w: u16,
    /// value class, see `value_of`
    pub vclass: u8,
    pub r: Fe,
    pub small: u8,
    pub entry_pairs: bool,
    pub adv_pos: u16,
    pub adv_digit: u8,
    pub prove: bool,
    pub seed: u64,
}

pub fn value_of(w: usize, vclass: u8, r: &F, small: u8) -> F {
    let pw = |k: usize| -> F {
        if k >= 256 {
            F::zero()
        } else {
            f_pow2(k as u32)
        }
    };
    let padded = 8 * w.div_ceil(8);
    match vclass % 14 {
        0 => F::zero(),
        1 => F::one(),
        2 => pw(w) - F::one(),
        3 => pw(w),
        4 => pw(w) + F::one(),
        5 => -F::one(),
        6 => pw(w) * F::from(small as u64 + 1) + F::from(small as u64),
        // just above the quad padding boundary
        7 => pw(padded) + F::from(small as u64),
        8 => pw(padded) - F::one(),
        // small multiples of 2^-m: field elements near r/2^m whose DOUBLE (or
        // quadruple, ...) wraps around the modulus to a small integer
        12 => {
            let m = 1 + (small as u32 % 8);
            let inv = f_pow2(m).invert().unwrap();
            let sm = F::from(1 + 2 * (f_int(r).0[0] % 64)); // odd numerator
            sm * inv
        }
        13 => {
            // (r + k) / 2 for a small odd k, shifted by a value below 2^w
            let half = F::from(2u64).invert().unwrap();
            half * F::from(1 + 2 * (small as u64 % 4)) + f_of(f_int(r).low_bits(w.min(200) as u32))
        }
        // random below 2^w
        9 => f_of(f_int(r).low_bits(w.min(255) as u32)),
        // random with one bit above the width set
        10 => {
            let lo = f_int(r).low_bits(w.min(254) as u32);
            let mut u = lo;
            if w < 254 {
                u.set_bit(w as u32 + (small as u32 % (254 - w as u32)), true);
            }
            f_of(u)
        }
        _ => *r,
    }
}

fn case_strategy(_t: Tier) -> BoxedStrategy<Case> {
    (
        prop_oneof![3 => 0u16..=256, 1 => 0u16..=16, 1 => 240u16..=256],
        0u8..14,
        fe_random(),
        any::<u8>(),
        any::<bool>(),
        any::<u16>(),
        4u8..8,
        proptest::bool::weighted(0.2),
        any::<u64>(),
    )
        .prop_map(|(w, vclass, r, small, entry_pairs, adv_pos, adv_digit, prove, seed)| Case {
            w,
            vclass,
            r,
            small,
            entry_pairs,
            adv_pos,
            adv_digit,
            prove,
            seed,
        })
        .boxed()
}

fn check(ctx: &Ctx, c: &Case) -> PResult {
    let w = c.w as usize;
    let v = value_of(w, c.vclass, &c.r.0, c.small);
    let use_pairs = c.entry_pairs && w % 2 == 0;
    let op = if use_pairs {
        Op::RangePairs { pairs: (w / 2) as u16, v: Fe(v) }
    } else {
        Op::RangeBits { bits: w as u16, v: Fe(v) }
    };
    let g = no_panic("range-build-panic", || Gad::build(vec![op], false))?
        .map_err(|e| Fail::new("range-build-error", format!("{e:?}")))?;
    let in_range = f_int(&v).fits(w as u32);
    let expected_sat = w >= 255 || in_range;
    let cls = format!(
        "w={} {} {}",
        match w {
            0 => "0",
            1..=8 => "1-8",
            9..=253 => "9-253",
            254 => "254",
            _ => "255-256",
        },
        if w % 2 == 0 { "even" } else { "odd" },
        if in_range { "in-range" } else { "out-of-range" }
    );
    ctx.eval(&cls);
    let unsat = g.honest_unsat();
    ensure!(
        unsat.is_empty() == expected_sat,
        if expected_sat { "range-rejects-in-range" } else { "range-accepts-out-of-range" },
        "width {w}, value {}: honest circuit is {} but the value is {} [0, 2^{w}) ({:?})",
        crate::fe::fe_short(&v),
        if unsat.is_empty() { "satisfiable" } else { "unsatisfiable" },
        if in_range { "inside" } else { "outside" },
        unsat.first()
    );
    if c.prove {
        gadget::cross_check(&g, &g.wit, c.seed, "honest range circuit")?;
        ctx.label("cross-checked with the real prover");
    }

    // role-free adversary: the gadget's own accumulators for an in-range
    // value, with the input witness put back
    if !expected_sat {
        let ov = f_of(f_int(&c.r.0).low_bits(w as u32));
        let oop = if use_pairs {
            Op::RangePairs { pairs: (w / 2) as u16, v: Fe(ov) }
        } else {
            Op::RangeBits { bits: w as u16, v: Fe(ov) }
        };
        let other = Gad::build(vec![oop], false).map_err(|e| Fail::new("range-build-error", format!("{e:?}")))?;
        let inp = g.handle_wit(2);
        match gadget::transplant(&g, &other, &[inp]) {
            Some(asg) => {
                ctx.add_evals(1);
                ctx.label("adversary: transplant");
                if g.eval(&asg).is_empty() {
                    let real = g.prove_assignment(&asg, c.seed)?;
                    return Err(Fail::new(
                        "range-accumulators-decoupled-from-input",
                        format!("width {w}, value {} >= 2^{w}: the accumulators of an in-range value satisfy every row (real: {real:?})", crate::fe::fe_short(&v)),
                    ));
                }
            }
            None => return Err(Fail::new("range-shape-depends-on-values", "two builds differ in layout")),
        }
    }
    // model-free adversary: decide the input, then re-solve the remaining
    // wires row by row (arithmetic rows and base-4 steps) from the gadget's own
    // table for this value and from the table of an in-range value
    if !expected_sat {
        let inp = g.handle_wit(2);
        let mut starts: Vec<Vec<F>> = vec![g.wit.clone()];
        let ov = f_of(f_int(&c.r.0).low_bits(w as u32));
        let oop = if use_pairs {
            Op::RangePairs { pairs: (w / 2) as u16, v: Fe(ov) }
        } else {
            Op::RangeBits { bits: w as u16, v: Fe(ov) }
        };
        if let Ok(other) = Gad::build(vec![oop], false) {
            if let Some(asg) = gadget::transplant(&g, &other, &[inp]) {
                starts.push(asg);
            }
        }
        for st in starts {
            for late in [true, false] {
                ctx.add_evals(1);
                ctx.label("adversary: propagation");
                if let Some(a) = gadget::propagate(&g, &st, &[inp], late) {
                    let real = g.prove_assignment(&a, c.seed)?;
                    return Err(Fail::new(
                        "range-resolved-wires-accepted",
                        format!(
                            "width {w}, value {} >= 2^{w}: with the input fixed the other wires can be re-solved row by row so that every identity holds (real prover+verifier: {real:?})",
                            crate::fe::fe_short(&v)
                        ),
                    ));
                }
            }
        }
    }
    // adversarial accumulators on the unchanged layout
    let honest_vec = gadget::rc_vec(w, f_int(&v));
    if !g.role_model_matches(0, 1, &honest_vec) {
        ctx.label("role model mismatch: adversarial tier skipped");
        return Ok(());
    }
    let mut cands: Vec<(&str, Vec<F>)> = Vec::new();
    let vi = f_int(&v);
    // the value's own digits with an oversized top digit carrying the excess
    if w >= 2 && w % 2 == 0 {
        let mut q = gadget::quads_of(vi, w);
        q[0] = f_of(vi.shr((w - 2) as u32));
        cands.push(("oversized top quad", gadget::accs_from_quads(&q)));
        cands.push((
            "one quad out of {0..3}",
            gadget::rc_vec_bad_quad(w, vi, c.adv_pos as usize, c.adv_digit as u64),
        ));
    }
    // modulus aliases v + k r as integers
    for k in 1..=2u32 {
        let mut u = vi;
        let mut ok = true;
        for _ in 0..k {
            let (s, carry) = u.add(R_MOD);
            ok &= !carry;
            u = s;
        }
        if ok {
            cands.push(("digits of v + k*r", gadget::rc_vec(w, u)));
        }
    }
    // digits of another value
    cands.push(("digits of another value", gadget::rc_vec(w, f_int(&c.r.0))));
    if w % 2 == 1 {
        // odd width: top bit carrying the excess
        let top = w - 1;
        let lower = vi.low_bits(top as u32);
        let tb = f_of(vi.shr(top as u32));
        let lf = f_of(lower);
        let mut vv = vec![lf];
        vv.extend(gadget::rc_vec(top, lower));
        vv.push(tb);
        vv.push(lf + tb * f_pow2(top as u32));
        cands.push(("odd width: non-boolean top bit", vv));
    }
    for (name, vec) in cands {
        if vec.len() != honest_vec.len() {
            continue;
        }
        let a = g.splice(&g.wit, 0, 1, &vec);
        if gadget::maybe_cross(&g, &a, c.seed, name.len(), 40, "range adversarial assignment")? {
            ctx.label("adversarial assignment cross-checked with the real prover");
        }
        let u = g.eval(&a);
        ctx.label(&format!("adversary: {name}"));
        ctx.add_evals(1);
        if u.is_empty() && !expected_sat {
            // confirm against the real system
            let real = g.prove_assignment(&a, c.seed)?;
            return Err(Fail::new(
                "range-forged-accumulators-accepted",
                format!(
                    "width {w}, value {} >= 2^{w}: assignment '{name}' satisfies every row (real prover+verifier: {real:?})",
                    crate::fe::fe_short(&v)
                ),
            ));
        }
    }
    let near = {
        let lo = if w == 0 { U256::ZERO } else { U256::pow2((w - 1).min(255) as u32) };
        vi.lt(lo) == false || !in_range
    };
    if near {
        ctx.nontrivial_json(&(w, c.vclass, c.r, c.small, use_pairs));
        ctx.sample(&cls, || json!({"w": w, "value": crate::fe::fe_short(&v), "entry": if use_pairs {"component_range"} else {"component_range_bits"}, "sat": unsat.is_empty()}));
    }
    Ok(())
}

/// every width x boundary values, and layout identity of the entry points
fn sweep(ctx: &Ctx) {
    let seed_r = crate::fe::f_stream(ctx.seed, 4);
    for w in 0usize..=256 {
        for vclass in [0u8, 2, 3, 4, 5, 7, 9, 10, 12, 13] {
            let c = Case {
                w: w as u16,
                vclass,
                r: Fe(seed_r[vclass as usize % 4]),
                small: (w % 7) as u8,
                entry_pairs: vclass % 2 == 0,
                adv_pos: (w * 31) as u16,
                adv_digit: 4 + (w % 4) as u8,
                prove: ctx.tier == Tier::Thorough && vclass == 3,
                seed: ctx.seed ^ w as u64,
            };
            if let Err(f) = check(ctx, &c) {
                ctx.violation("range", &f, serde_json::to_value(&c).unwrap());
                return;
            }
        }
    }
    ctx.label("sweep: all widths 0..=256 x 10 boundary values");
    // both entry points and the runtime seam emit identical gates
    for p in 0usize..=160 {
        let bits = (2 * p).min(256);
        let v = Fe(seed_r[0]);
        let a = Gad::build(vec![Op::RangePairs { pairs: p as u16, v }], false);
        let b = Gad::build(vec![Op::RangeBits { bits: bits as u16, v }], false);
        let s = Gad::build(vec![Op::RangeSeam { bits: bits as u16, v }], false);
        match (a, b, s) {
            (Ok(a), Ok(b), Ok(s)) => {
                if let Some(d) = a.layout.first_diff(&b.layout).or(a.layout.first_diff(&s.layout)) {
                    ctx.violation(
                        "range",
                        &Fail::new("range-entry-points-differ", format!("component_range::<{p}> vs component_range_bits::<{bits}>: {d}")),
                        json!({"pairs": p}),
                    );
                    return;
                }
                ctx.add_evals(1);
            }
            _ => {
                ctx.violation("range", &Fail::new("range-build-error", "entry point failed to build"), json!({"pairs": p}));
                return;
            }
        }
    }
    ctx.label("sweep: entry-point layout identity for all P in 0..=160");
    ctx.set_exhaustive(false);
}

pub fn props() -> Vec<(Box<dyn PropDyn>, u32, u32)> {
    vec![(Box::new(Prop::new("range", case_strategy, check).shrink(400)), 12000, 150000)]
}

pub fn sweeps(ctx: &Ctx) {
    sweep(ctx);
}

pub fn describe(ctx: &Ctx) {
    ctx.rule("cases: width 0..=256 (every width in the sweep) x value classes {0, 1, 2^w-1, 2^w, 2^w+1, r-1, k*2^w+j, around the 8-bit padding boundary, random below, random with one bit above, random, small odd multiples of 2^-m (m = 1..8), (r+k)/2 plus a small value} x entry point {bit-counted, pair-counted}; adversarial accumulator vectors on the unchanged layout {oversized top quad, one quad out of range, digits of v+r / v+2r, digits of another value, non-boolean top bit} and the model-free propagation adversary (input fixed, every other wire re-solved row by row through arithmetic rows and base-4 steps, from the gadget's own table and from an in-range value's table). Oracle: reference row evaluator (cross-checked with the real prover on a sample): honest circuit satisfiable iff v < 2^w (w <= 254) / always (w >= 255); no adversarial vector satisfies when v >= 2^w; entry points emit identical layouts. non-trivial = value >= 2^(w-1) or out of range; distinct by (w, class, value, entry)");
    ctx.assume("role model of the range gadget's witness allocation is validated against the honest table per case; on mismatch only the honest tier runs");
}
