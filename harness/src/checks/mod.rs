//! One module per property. Each exposes `props()` (generated-input
//! properties with quick/thorough case counts), `describe()` (rule and
//! assumptions for the evidence) and optionally `sweeps()` (finite exhaustive
//! enumerations run outside proptest).

use crate::runner::{Ctx, PropDyn};

pub mod c01;
pub mod c02;
pub mod c03;
pub mod c04;
pub mod c05;
pub mod c06;
pub mod c07;
pub mod c08;
pub mod c09;
pub mod c10;
pub mod c11;
pub mod c12;
pub mod c13;
pub mod c14;
pub mod c15;
pub mod c16;
pub mod c17;
pub mod c18;
pub mod c19;
pub mod c20;
pub mod session;

pub type PropList = Vec<(Box<dyn PropDyn>, u32, u32)>;

pub struct Check {
    pub id: &'static str,
    pub props: fn() -> PropList,
    pub describe: fn(&Ctx),
    pub sweeps: Option<fn(&Ctx)>,
}

pub fn all() -> Vec<Check> {
    vec![
        Check {
            id: "C01",
            props: c01::props,
            describe: c01::describe,
            sweeps: Some(c01::sweeps),
        },
        Check {
            id: "C02",
            props: c02::props,
            describe: c02::describe,
            sweeps: None,
        },
        Check {
            id: "C03",
            props: c03::props,
            describe: c03::describe,
            sweeps: Some(c03::sweeps),
        },
        Check {
            id: "C04",
            props: c04::props,
            describe: c04::describe,
            sweeps: Some(c04::sweeps),
        },
        Check {
            id: "C05",
            props: c05::props,
            describe: c05::describe,
            sweeps: Some(c05::sweeps),
        },
        Check {
            id: "C06",
            props: c06::props,
            describe: c06::describe,
            sweeps: None,
        },
        Check {
            id: "C07",
            props: c07::props,
            describe: c07::describe,
            sweeps: Some(c07::sweeps),
        },
        Check {
            id: "C08",
            props: c08::props,
            describe: c08::describe,
            sweeps: None,
        },
        Check {
            id: "C09",
            props: c09::props,
            describe: c09::describe,
            sweeps: Some(c09::sweeps),
        },
        Check {
            id: "C10",
            props: c10::props,
            describe: c10::describe,
            sweeps: Some(c10::sweeps),
        },
        Check {
            id: "C11",
            props: c11::props,
            describe: c11::describe,
            sweeps: Some(c11::sweeps),
        },
        Check {
            id: "C12",
            props: c12::props,
            describe: c12::describe,
            sweeps: None,
        },
        Check {
            id: "C13",
            props: c13::props,
            describe: c13::describe,
            sweeps: None,
        },
        Check {
            id: "C14",
            props: c14::props,
            describe: c14::describe,
            sweeps: None,
        },
        Check {
            id: "C15",
            props: c15::props,
            describe: c15::describe,
            sweeps: Some(c15::sweeps),
        },
        Check {
            id: "C16",
            props: c16::props,
            describe: c16::describe,
            sweeps: None,
        },
        Check {
            id: "C17",
            props: c17::props,
            describe: c17::describe,
            sweeps: Some(c17::sweeps),
        },
        Check {
            id: "C18",
            props: c18::props,
            describe: c18::describe,
            sweeps: Some(c18::sweeps),
        },
        Check {
        id: "C19",
        props: c19::props,
        describe: c19::describe,
        sweeps: None,
    },
        Check {
            id: "C20",
            props: c20::props,
            describe: c20::describe,
            sweeps: None,
        },
    ]
}
