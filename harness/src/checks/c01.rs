//! C01 — completeness: every satisfied circuit proves and verifies, on every
//! key route (direct, Default, compressed, serialized bytes).

use std::sync::Arc;

use dusk_plonk::prelude::{PlonkVersion, Prover, Verifier};
use proptest::prelude::*;
use serde::{Deserialize, Serialize};
use serde_json::json;

use crate::ensure;
use crate::fe::{fe_any, pick, Fe, F};
use crate::prog::{self, Op, Pi, Program};
use crate::refver::{self, RefProof, RefVerifier};
use crate::runner::{no_panic, Ctx, Fail, PResult, Prop, PropDyn, Tier};
use crate::spec::{self, Layout};
use crate::sys::{self, err_name, Route};

#[derive(Debug, Clone, Serialize, Deserialize)]
pub struct Case {
    pub ops: Vec<Op>,
    /// constraint target 2^k + delta reached by padding (if above the
    /// program's own size)
    pub target: Option<(u32, i8)>,
    /// where the padding goes (monotone position in the op list)
    pub pad_pos: u16,
    pub label: Vec<u8>,
    /// 0 minimal, 1 minimal+odd, 2 double, 3 minimal+7, 4 far larger (4096+5)
    pub cap_kind: u8,
    pub route: u8,
    pub route2: u8,
    pub prover_bytes: bool,
    pub verifier_bytes: bool,
    pub legacy: bool,
    pub seed: u64,
}

pub fn route_of(r: u8) -> Route {
    match r % 3 {
        0 => Route::Instance,
        1 => Route::Default,
        _ => Route::Compressed,
    }
}

fn case_strategy(t: Tier) -> BoxedStrategy<Case> {
    let max_k = t.pick(9u32, 12u32);
    (
        prog::with_pi_burst(
            prop_oneof![
                6 => prog::ops_strategy(30, 3, 0),
                2 => prog::ops_strategy(60, 6, 1),
                1 => prog::ops_strategy(8, 2, 6),
            ]
            .boxed(),
            150,
        ),
        proptest::option::weighted(0.6, (3u32..=max_k, -8i8..=8)),
        any::<u16>(),
        proptest::collection::vec(any::<u8>(), 0..40),
        0u8..5,
        0u8..3,
        0u8..3,
        any::<bool>(),
        any::<bool>(),
        proptest::bool::weighted(0.15),
        any::<u64>(),
    )
        .prop_map(
            |(
                ops,
                target,
                pad_pos,
                label,
                cap_kind,
                route,
                route2,
                prover_bytes,
                verifier_bytes,
                legacy,
                seed,
            )| Case {
                ops,
                target,
                pad_pos,
                label,
                cap_kind,
                route,
                route2,
                prover_bytes,
                verifier_bytes,
                legacy,
                seed,
            },
        )
        .boxed()
}

/// the program with padding inserted so that the constraint count reaches
/// the target (when the target is above the unpadded size)
pub fn padded_program(ops: &[Op], target: Option<(u32, i8)>, pad_pos: u16) -> Result<(Arc<Program>, usize), Fail> {
    let base = Program::solved(ops.to_vec());
    let (c0, _) = prog::build(&base)
        .map_err(|e| Fail::new("honest-build-error", format!("{e:?}")))?;
    let n0 = c0.constraints();
    let mut ops = ops.to_vec();
    if let Some((k, d)) = target {
        let t = (1i64 << k) + d as i64;
        if t > n0 as i64 {
            let mut need = (t - n0 as i64) as usize;
            let pos = pick(pad_pos, ops.len() + 1);
            let mut pads = Vec::new();
            while need > 0 {
                let k = need.min(60000);
                // odd positions pad with pairwise distinct selector tuples
                pads.push(if pad_pos & 1 == 1 { Op::PadDistinct(k as u16) } else { Op::Pad(k as u16) });
                need -= k;
            }
            for (i, p) in pads.into_iter().enumerate() {
                ops.insert(pos + i, p);
            }
        }
    }
    let p = Arc::new(Program::solved(ops));
    let (c, _) = prog::build(&p)
        .map_err(|e| Fail::new("honest-build-error", format!("{e:?}")))?;
    Ok((p, c.constraints()))
}

pub fn size_class(c: usize) -> String {
    let up = c.next_power_of_two();
    let down = up / 2;
    let (near, d) = if up - c <= c - down {
        (up, c as i64 - up as i64)
    } else {
        (down, c as i64 - down as i64)
    };
    let k = near.trailing_zeros();
    let kb = match k {
        0..=5 => "k<=5",
        6..=8 => "k6-8",
        9..=10 => "k9-10",
        _ => "k11+",
    };
    if d == 0 {
        format!("size=2^k {kb}")
    } else if (-7..=-5).contains(&d) {
        format!("size=2^k-6+-1 {kb}")
    } else if d.abs() <= 8 {
        format!("size=2^k{}(1..8) {kb}", if d < 0 { "-" } else { "+" })
    } else {
        format!("size=other {kb}")
    }
}

pub fn families(l: &Layout) -> Vec<&'static str> {
    let mut f = Vec::new();
    let names = [
        (spec::Q_RANGE, "range"),
        (spec::Q_LOGIC, "logic"),
        (spec::Q_FIXED, "fixed-base"),
        (spec::Q_VAR, "variable-base"),
    ];
    for (i, n) in names {
        if l.rows.iter().any(|r| r.sel[i] != F::zero()) {
            f.push(n);
        }
    }
    f
}

fn check(ctx: &Ctx, c: &Case) -> PResult {
    let (program, n) = padded_program(&c.ops, c.target, c.pad_pos)?;
    let (composer, trace) = no_panic("honest-build-panic", || prog::build(&program))?
        .map_err(|e| Fail::new("honest-build-error", format!("{e:?}")))?;
    let snap = composer.verif_snapshot();
    let layout = Layout::from_snapshot(&snap);
    let sc = size_class(n);
    ctx.eval(&sc);

    // the components return what the SPEC value model says
    if let Some((op, m)) = trace.value_mismatches(&composer).first() {
        let name = c_op_name(&program, *op);
        return Err(Fail::new(format!("value-model:{name}"), m.clone()));
    }
    ensure!(
        trace.api_mismatch.is_empty(),
        "api-shape",
        "{:?}",
        trace.api_mismatch
    );

    let min_cap = sys::min_capacity(n);
    let cap = match c.cap_kind % 5 {
        0 => min_cap,
        1 => min_cap + 1 + (c.seed % 3) as usize * 2,
        2 => 2 * min_cap,
        3 => min_cap + 7,
        _ => (4096 + 5).max(min_cap),
    };
    let pp = sys::pp(cap);
    let r1 = route_of(c.route);
    let r2 = route_of(c.route2);
    let (prover, verifier1) = no_panic("compile-panic", || {
        sys::compile(&pp, &c.label, &program, r1)
    })?
    .map_err(|e| {
        Fail::new(
            format!("compile-error:{}", err_name(&e)),
            format!("route {r1:?} capacity {cap} constraints {n}: {e:?}"),
        )
    })?;
    let verifier = if r2 == r1 {
        verifier1
    } else {
        no_panic("compile-panic", || sys::compile(&pp, &c.label, &program, r2))?
            .map_err(|e| {
                Fail::new(
                    format!("compile-error:{}", err_name(&e)),
                    format!("route {r2:?} capacity {cap} constraints {n}: {e:?}"),
                )
            })?
            .1
    };
    // a capacity one power of two below must be refused with an error
    if min_cap >= 32 && c.seed % 4 == 0 {
        let small = sys::pp(min_cap / 2);
        let r = no_panic("compile-panic", || {
            sys::compile(&small, &c.label, &program, r1)
        })?;
        ensure!(
            r.is_err(),
            "compile-undersized-accepted",
            "capacity {} admitted {} constraints",
            min_cap / 2,
            n
        );
        ctx.label("undersized capacity refused");
    }
    // "for every circuit that COMPILES": capacities just below the documented
    // minimum are normally refused; if one of them is admitted, the compiled
    // keys must still prove and verify
    if c.seed % 3 == 0 && min_cap >= 8 {
        let sub = min_cap - 1 - (c.seed as usize / 3) % 3;
        let spp = sys::pp(sub);
        match no_panic("compile-panic", || sys::compile(&spp, &c.label, &program, r1))? {
            Err(_) => ctx.label("capacity just below the minimum refused"),
            Ok((p, v)) => {
                ctx.label("capacity just below the minimum admitted");
                let (proof, pi) = no_panic("prove-panic", || sys::prove(&p, &program, c.seed))?.map_err(|e| {
                    Fail::new(
                        format!("prove-error:{}", err_name(&e)),
                        format!("capacity {sub} (below the documented minimum {min_cap}) compiled {n} constraints, but the satisfied circuit does not prove: {e:?}"),
                    )
                })?;
                no_panic("verify-panic", || v.verify(&proof, &pi))?.map_err(|e| {
                    Fail::new("verify-rejects-honest", format!("capacity {sub} (below the documented minimum {min_cap}): honest proof rejected: {e:?}"))
                })?;
            }
        }
    }
    let prover = if c.prover_bytes {
        let b = prover.to_bytes();
        no_panic("prover-decode-panic", || Prover::try_from_bytes(&b))?.map_err(
            |e| {
                Fail::new(
                    "prover-bytes-roundtrip",
                    format!("Prover::try_from_bytes(to_bytes()) = {e:?} (constraints {n})"),
                )
            },
        )?
    } else {
        prover
    };
    let verifier = if c.verifier_bytes {
        let b = verifier.to_bytes();
        no_panic("verifier-decode-panic", || Verifier::try_from_bytes(&b))?
            .map_err(|e| {
                Fail::new(
                    "verifier-bytes-roundtrip",
                    format!("Verifier::try_from_bytes(to_bytes()) = {e:?}"),
                )
            })?
    } else {
        verifier
    };

    let version = if c.legacy {
        PlonkVersion::V2
    } else {
        PlonkVersion::V3
    };
    let (proof, pi) = no_panic("prove-panic", || {
        sys::prove_version(&prover, &program, c.seed, version)
    })?
    .map_err(|e| {
        Fail::new(
            format!("prove-error:{}", err_name(&e)),
            format!(
                "satisfied circuit ({n} constraints, capacity {cap}, families {:?}) was refused: {e:?}; reference evaluator says {:?}",
                families(&layout),
                spec::sat_snapshot(&snap).first()
            ),
        )
    })?;
    ensure!(
        pi == trace.public,
        "public-inputs-returned",
        "prover returned {} public inputs, model has {} (or values differ)",
        pi.len(),
        trace.public.len()
    );
    no_panic("verify-panic", || {
        verifier.verify_with_version(&proof, &pi, version)
    })?
    .map_err(|e| {
        Fail::new(
            "verify-rejects-honest",
            format!(
                "honest proof rejected: {e:?} (constraints {n}, capacity {cap}, routes {r1:?}/{r2:?}, bytes {}/{})",
                c.prover_bytes, c.verifier_bytes
            ),
        )
    })?;
    // the reference verifier agrees
    use dusk_bytes::Serializable;
    let rv = RefVerifier::parse(&verifier.to_bytes())
        .map_err(|e| Fail::new("refver-parse", e))?;
    let rp = RefProof::parse(&proof.to_bytes())
        .map_err(|e| Fail::new("refver-parse", e))?;
    let verdict = refver::verify(&rv, &rp, &pi, refver::version_of(version));
    ensure!(
        verdict.accept,
        "reference-verifier-rejects-honest",
        "implementation accepted an honest proof the protocol equation rejects ({})",
        verdict.reason
    );

    // classification
    let fam = families(&layout);
    for f in &fam {
        ctx.label(&format!("family {f}"));
    }
    ctx.label(&format!("route {:?}/{:?}", r1, r2));
    ctx.label(&format!("capacity kind {}", c.cap_kind % 5));
    if c.prover_bytes {
        ctx.label("prover from bytes");
    }
    if c.verifier_bytes {
        ctx.label("verifier from bytes");
    }
    if c.legacy {
        ctx.label("version V2");
    }
    if layout.pi_rows.contains(&(n - 1)) && n.is_power_of_two() {
        ctx.label("PI on last row of a full domain");
    }
    if layout.pi_rows.contains(&4) {
        ctx.label("PI on first user row");
    }
    if layout.pi_rows.windows(2).any(|w| w[1] == w[0] + 1) {
        ctx.label("PI on adjacent rows");
    }
    if snap.public_inputs.iter().any(|(_, v)| *v == F::zero()) {
        ctx.label("zero-valued PI");
    }
    match pi.len() {
        0..=15 => {}
        16..=31 => ctx.label("16-31 public inputs"),
        32..=63 => ctx.label("32-63 public inputs"),
        _ => ctx.label("64+ public inputs"),
    }
    if n > 4 {
        ctx.nontrivial_json(&(layout.digest().to_vec(), cap, c.route, c.route2, c.prover_bytes, c.verifier_bytes));
        ctx.sample(&sc, || {
            json!({"constraints": n, "capacity": cap, "routes": format!("{r1:?}/{r2:?}"),
                   "ops": program.ops.iter().map(|o| o.name()).collect::<Vec<_>>(),
                   "public_inputs": pi.len(), "label_len": c.label.len()})
        });
    }
    Ok(())
}

fn c_op_name(p: &Program, op: usize) -> &'static str {
    p.ops.get(op).map(|o| o.name()).unwrap_or("init")
}

/// exhaustive (k, delta) sweep with a small program that has a public input
/// on its first and on its last row
fn sweep(ctx: &Ctx) {
    let max_k = ctx.tier.pick(9u32, 13u32);
    let mut cases = Vec::new();
    for k in 3..=max_k {
        for d in -8i8..=8 {
            let t = (1i64 << k) + d as i64;
            if t < 8 {
                continue;
            }
            // first op: public input on row 4; last op: public input on the
            // last row; padding in between
            let ops = vec![
                Op::Public(Fe(F::from(k as u64 + 11))),
                Op::Wit(Fe(F::from(5u64))),
                Op::GateMul {
                    qm: Fe(F::one()),
                    qf: Fe(F::zero()),
                    qc: Fe(F::from(3u64)),
                    w: [40000, 40000, 0],
                    pi: Pi::None,
                },
                Op::RangeBits {
                    bits: 9,
                    v: Fe(F::from(300u64)),
                },
                Op::Public(Fe(F::from(d as i64 as u64 % 97))),
            ];
            cases.push(Case {
                ops,
                target: Some((k, d)),
                pad_pos: 52000, // before the last op
                label: format!("sweep-{k}").into_bytes(),
                cap_kind: (k as u8 + d as u8) % 5,
                route: (k as u8 + d as u8) % 3,
                route2: (d as u8) % 3,
                prover_bytes: d % 2 == 0,
                verifier_bytes: d % 3 == 0,
                legacy: false,
                seed: ctx.seed ^ ((k as u64) << 8) ^ (d as u8 as u64),
            });
        }
    }
    let total = cases.len();
    let cases = std::sync::Mutex::new(cases.into_iter());
    std::thread::scope(|s| {
        for _ in 0..crate::runner::default_shards() {
            s.spawn(|| loop {
                let Some(c) = cases.lock().unwrap().next() else {
                    break;
                };
                let r = std::panic::catch_unwind(std::panic::AssertUnwindSafe(|| check(ctx, &c)))
                    .unwrap_or_else(|_| Err(Fail::new("harness-or-target-panic", "panic in sweep")));
                if let Err(f) = r {
                    ctx.violation("complete", &f, serde_json::to_value(&c).unwrap());
                }
            });
        }
    });
    ctx.label_n("sweep (k,delta) cases", total as u64);
}

pub fn props() -> Vec<(Box<dyn PropDyn>, u32, u32)> {
    vec![
        (
            Box::new(Prop::new("complete", case_strategy, check).shrink(200)),
            480,
            6000,
        ),
        (
            Box::new(Prop::new("session", super::session::case_strategy, super::session::check).shrink(150)),
            160,
            2500,
        ),
    ]
}

pub fn sweeps(ctx: &Ctx) {
    sweep(ctx);
}

pub fn describe(ctx: &Ctx) {
    ctx.rule("cases: generated circuit programs (every public component + raw arithmetic rows, satisfying by construction through an independent value model), constraint targets 2^k+delta (k<=9 quick / 12 thorough, delta in -8..=8) by padding at a generated position, labels of 0..40 arbitrary bytes, capacities {minimal, minimal+odd, minimal+7, double, far larger (4101)} and, for a third of the cases, 1..3 below the minimum (refused, or else the keys must work), prover route x verifier route in {instance, Default, compressed}^2, optional byte round trip of prover/verifier, V3 and V2; plus the exhaustive (k,delta) sweep with a PI on the first and last row; non-trivial = more than the 4 fixed rows; distinct by (layout digest, capacity, routes, byte-routes)");
    ctx.assume("witness values are those of the harness's value model (checked equal to what the composer computed)");
    ctx.assume("degenerate (zero) blinders are not generated here (ChaCha-seeded RNG)");
    let _ = fe_any;
}
