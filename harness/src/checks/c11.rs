//! C11 — truncation and bit decomposition return the canonical bits.

use proptest::prelude::*;
use serde::{Deserialize, Serialize};
use serde_json::json;

use crate::ensure;
use crate::fe::{f_int, f_of, f_pow2, fe_random, fe_short, Fe, F, R_MOD, U256};
use crate::gadget::{self, BtsForge, Gad};
use crate::prog::Op;
use crate::runner::{no_panic, Ctx, Fail, PResult, Prop, PropDyn, Tier};
use crate::spec;

#[derive(Debug, Clone, Serialize, Deserialize)]
pub struct Case {
    pub decomposition: bool,
    pub n: u16,
    pub vclass: u8,
    pub r: Fe,
    pub r2: Fe,
    pub small: u8,
    pub prove: bool,
    pub seed: u64,
}

/// values the property names: 0, r-1, values whose sum with r still fits,
/// 2^N - 1, 2^N, random
pub fn value_of(n: usize, vclass: u8, r: &F, small: u8) -> F {
    let pw = |k: usize| -> F {
        if k >= 256 {
            F::zero()
        } else {
            f_pow2(k as u32)
        }
    };
    match vclass % 10 {
        0 => F::zero(),
        1 => F::one(),
        2 => -F::one(),
        3 => pw(n) - F::one(),
        4 => pw(n),
        5 => pw(n) + F::from(small as u64),
        // v with v + r < 2^255: v < 2^255 - r
        6 => {
            let room = U256::pow2(255).sub(R_MOD).0;
            let mut u = f_int(r);
            while !u.lt(room) {
                u = u.shr(1);
            }
            f_of(u)
        }
        7 => f_of(f_int(r).low_bits(n.min(255) as u32)),
        8 => F::from(small as u64),
        _ => *r,
    }
}

fn case_strategy(_t: Tier) -> BoxedStrategy<Case> {
    (
        any::<bool>(),
        prop_oneof![3 => 0u16..=256, 1 => 0u16..=5, 2 => 250u16..=256],
        0u8..10,
        fe_random(),
        fe_random(),
        any::<u8>(),
        proptest::bool::weighted(0.12),
        any::<u64>(),
    )
        .prop_map(|(decomposition, n, vclass, r, r2, small, prove, seed)| Case {
            decomposition,
            n,
            vclass,
            r,
            r2,
            small,
            prove,
            seed,
        })
        .boxed()
}

fn check(ctx: &Ctx, c: &Case) -> PResult {
    if c.decomposition {
        check_decomposition(ctx, c)
    } else {
        check_truncate(ctx, c)
    }
}

fn ncls(n: usize) -> &'static str {
    match n {
        0..=4 => "0-4",
        5..=249 => "5-249",
        250..=254 => "250-254",
        _ => "255-256",
    }
}

fn check_truncate(ctx: &Ctx, c: &Case) -> PResult {
    let n = (c.n as usize).min(254);
    let x = value_of(n, c.vclass, &c.r.0, c.small);
    let ops = vec![Op::Wit(Fe(x)), Op::Truncate { n: n as u8, a: 65535 }];
    let g = no_panic("truncate-build-panic", || Gad::build(ops, false))?
        .map_err(|e| Fail::new("truncate-build-error", format!("{e:?}")))?;
    let cls = format!("truncate N={}", ncls(n));
    ctx.eval(&cls);
    let want = spec::low_bits(&x, n as u32);
    // returned witness = last handle
    let ret_h = g.trace.wits.len() - 1;
    let ret_w = g.handle_wit(ret_h);
    ensure!(
        g.wit[ret_w] == want,
        "truncate-value",
        "component_truncate::<{n}>({}) returned {} instead of {}",
        fe_short(&x),
        fe_short(&g.wit[ret_w]),
        fe_short(&want)
    );
    let unsat = g.honest_unsat();
    ensure!(
        unsat.is_empty(),
        "truncate-unsatisfiable",
        "component_truncate::<{n}>({}) is not satisfiable: {:?}",
        fe_short(&x),
        unsat.first()
    );
    if c.prove {
        gadget::cross_check(&g, &g.wit, c.seed, "honest truncate circuit")?;
        ctx.label("cross-checked with the real prover");
    }
    // role-free adversary: the gadget's own wires for another input
    {
        let other = Gad::build(vec![Op::Wit(c.r2), Op::Truncate { n: n as u8, a: 65535 }], false)
            .map_err(|e| Fail::new("truncate-build-error", format!("{e:?}")))?;
        let inp = g.handle_wit(2);
        match gadget::transplant(&g, &other, &[inp]) {
            Some(asg) => {
                ctx.add_evals(1);
                ctx.label("adversary: transplant");
                if g.eval(&asg).is_empty() && asg[ret_w] != want {
                    let real = g.prove_assignment(&asg, c.seed)?;
                    return Err(Fail::new(
                        "truncate-result-decoupled-from-input",
                        format!("component_truncate::<{n}>({}): the wires computed for another input satisfy every row, returned {} != {} (real: {real:?})", fe_short(&x), fe_short(&asg[ret_w]), fe_short(&want)),
                    ));
                }
            }
            None => return Err(Fail::new("truncate-shape-depends-on-values", "two builds differ in layout")),
        }
    }
    // model-free adversary: the result (or one internal wire) decided by the
    // prover, input kept, every other wire re-solved row by row
    {
        let inp = g.handle_wit(2);
        let mut forged: Vec<(&str, F)> = vec![("result + 1", want + F::one()), ("input itself", x), ("result + 2^N", want + f_pow2(n as u32))];
        for k in 1..=2u32 {
            if let Some((_, l)) = gadget::alias_split(&x, k, n) {
                forged.push(("low part of x + k r", f_of(l)));
            }
        }
        for (name, fv) in forged {
            if fv == want {
                continue;
            }
            ctx.add_evals(1);
            ctx.label("adversary: propagation from a forged result");
            if let Some(msg) = gadget::propagation_attack(&g, &[(inp, x), (ret_w, fv)], c.seed, &format!("component_truncate::<{n}>({}), returned witness forced to {name}", fe_short(&x)), |_| true)? {
                return Err(Fail::new("truncate-resolved-wires-accepted", msg));
            }
        }
        let (k, hit) = gadget::wire_perturbation_attacks(&g, 1, &[inp], 6, c.seed ^ c.small as u64, c.seed, &format!("component_truncate::<{n}>({})", fe_short(&x)), |asg| asg[ret_w] != want)?;
        ctx.add_evals(k);
        ctx.label_n("adversary: single-wire perturbation + propagation", k);
        if let Some(msg) = hit {
            return Err(Fail::new("truncate-resolved-wires-accepted", msg));
        }
    }
    let (hh, hl) = gadget::honest_split(&x, n);
    let honest_segs = gadget::truncate_segs(n, hh, hl, &BtsForge::default());
    let honest_ranges = gadget::truncate_ranges(n, hh, hl, &BtsForge::default());
    let (ws, we) = g.op_wits(1);
    let Some(fits) = gadget::fit_ranges(&honest_segs, &honest_ranges, &g.wit[ws..we]) else {
        ctx.label("role model mismatch: adversarial tier skipped");
        return Ok(());
    };
    if fits.iter().any(|f| *f != gadget::SegFit::Keep) {
        ctx.label("role model fitted with dropped / re-widthed segments");
    }
    let honest_vec = gadget::flatten_fit(&honest_segs, &honest_ranges, &fits);
    let tv = |n: usize, h: U256, l: U256, f: &BtsForge| {
        gadget::flatten_fit(&gadget::truncate_segs(n, h, l, f), &gadget::truncate_ranges(n, h, l, f), &fits)
    };
    let mut cands: Vec<(String, Vec<F>)> = Vec::new();
    let forges = [
        ("", BtsForge::default()),
        (" is_top=0", BtsForge { is_top: Some(F::zero()), ..Default::default() }),
        (" is_top=1", BtsForge { is_top: Some(F::one()), ..Default::default() }),
        (" guard=0", BtsForge { guard: Some(F::zero()), ..Default::default() }),
        (" inverse=0", BtsForge { inverse: Some(F::zero()), ..Default::default() }),
        (" is_top=0 guard=0", BtsForge { is_top: Some(F::zero()), guard: Some(F::zero()), inverse: None }),
    ];
    for k in 1..=2u32 {
        if let Some((h, l)) = gadget::alias_split(&x, k, n) {
            for (fname, forge) in &forges {
                cands.push((format!("split of x+{k}r{fname}"), tv(n, h, l, forge)));
            }
        }
    }
    // shifted splits: (high - j, low + j 2^n)
    if hh != U256::ZERO {
        let h2 = hh.sub(U256::ONE).0;
        let l2 = f_int(&(f_of(hl) + f_pow2(n as u32)));
        cands.push(("split (high-1, low+2^n)".into(), tv(n, h2, l2, &BtsForge::default())));
    }
    // split of another value entirely (transplant)
    let (oh, ol) = gadget::honest_split(&c.r2.0, n);
    cands.push(("split of another value".into(), tv(n, oh, ol, &BtsForge::default())));
    for (fname, forge) in &forges[1..] {
        cands.push((format!("honest split{fname}"), tv(n, hh, hl, forge)));
    }
    let (start, _) = g.op_wits(1);
    for (name, vec) in cands {
        if vec.len() != honest_vec.len() {
            continue;
        }
        let a = g.splice(&g.wit, 1, 0, &vec);
        if gadget::maybe_cross(&g, &a, c.seed, name.len(), 60, "truncate adversarial assignment")? {
            ctx.label("adversarial assignment cross-checked with the real prover");
        }
        ctx.add_evals(1);
        ctx.label(&format!("adversary: {}", name.split(' ').take(3).collect::<Vec<_>>().join(" ")));
        let rejected = !g.eval(&a).is_empty();
        if rejected {
            let inp = g.handle_wit(2);
            if let Some(done) = gadget::complete_candidate(&g, &a, &[inp], |y| y[start] != want) {
                let real = g.prove_assignment(&done, c.seed)?;
                return Err(Fail::new(
                    "truncate-alias-accepted",
                    format!(
                        "component_truncate::<{n}>({}): assignment '{name}' completed by re-solving the derived wires satisfies every row with returned value {} != {} (real prover+verifier: {real:?})",
                        fe_short(&x), fe_short(&done[start]), fe_short(&want)
                    ),
                ));
            }
        }
        if !rejected && a[start] != want {
            let real = g.prove_assignment(&a, c.seed)?;
            return Err(Fail::new(
                "truncate-alias-accepted",
                format!(
                    "component_truncate::<{n}>({}): assignment '{name}' satisfies every row with returned value {} != {} (real prover+verifier: {real:?})",
                    fe_short(&x), fe_short(&a[start]), fe_short(&want)
                ),
            ));
        }
    }
    // single-witness perturbation of the returned witness
    let a = g.with(&[(ret_w, want + F::one())]);
    ensure!(
        !g.eval(&a).is_empty(),
        "truncate-output-unconstrained",
        "returned witness of component_truncate::<{n}> can be changed freely"
    );
    ctx.nontrivial_json(&("t", n, c.vclass, c.r, c.small));
    ctx.sample(&cls, || json!({"N": n, "x": fe_short(&x), "returned": fe_short(&want)}));
    Ok(())
}

fn check_decomposition(ctx: &Ctx, c: &Case) -> PResult {
    let n = (c.n as usize).clamp(1, 256);
    let x = value_of(n, c.vclass, &c.r.0, c.small);
    let g = no_panic("decomposition-build-panic", || {
        Gad::build(vec![Op::Decompose { n: n as u16, v: Fe(x) }], false)
    })?
    .map_err(|e| Fail::new("decomposition-build-error", format!("{e:?}")))?;
    let fits = f_int(&x).fits(n as u32);
    let cls = format!("decomposition N={} {}", ncls(n), if fits { "fits" } else { "too-large" });
    ctx.eval(&cls);
    let unsat = g.honest_unsat();
    ensure!(
        unsat.is_empty() == fits,
        if fits { "decomposition-rejects-fitting-value" } else { "decomposition-accepts-oversized-value" },
        "component_decomposition::<{n}>({}): honest circuit {} although the value {} 2^{n}",
        fe_short(&x),
        if unsat.is_empty() { "is satisfiable" } else { "is unsatisfiable" },
        if fits { "is below" } else { "is not below" }
    );
    // returned bits (handles 3.. : input, then bits)
    let want_bits = spec::le_bits(&x, n);
    for (i, wb) in want_bits.iter().enumerate() {
        let h = 3 + i; // ZERO, ONE, input, bits...
        ensure!(
            g.wit[g.handle_wit(h)] == *wb,
            "decomposition-bits",
            "bit {i} of component_decomposition::<{n}>({}) is wrong",
            fe_short(&x)
        );
    }
    if c.prove && n <= 64 {
        gadget::cross_check(&g, &g.wit, c.seed, "honest decomposition circuit")?;
        ctx.label("cross-checked with the real prover");
    }
    // role-free adversary: bits and running sums of another value
    {
        let ov = spec::low_bits(&c.r2.0, n.min(255) as u32);
        let other = Gad::build(vec![Op::Decompose { n: n as u16, v: Fe(ov) }], false)
            .map_err(|e| Fail::new("decomposition-build-error", format!("{e:?}")))?;
        let inp = g.handle_wit(2);
        match gadget::transplant(&g, &other, &[inp]) {
            Some(asg) => {
                ctx.add_evals(1);
                ctx.label("adversary: transplant");
                let same_bits = (0..n).all(|i| asg[g.handle_wit(3 + i)] == want_bits[i]);
                if g.eval(&asg).is_empty() && (!same_bits || !fits) {
                    let real = g.prove_assignment(&asg, c.seed)?;
                    return Err(Fail::new(
                        "decomposition-bits-decoupled-from-input",
                        format!("component_decomposition::<{n}>({}): the bits of another value satisfy every row (real: {real:?})", fe_short(&x)),
                    ));
                }
            }
            None => return Err(Fail::new("decomposition-shape-depends-on-values", "two builds differ in layout")),
        }
    }
    // model-free adversary: one bit flipped (or the input out of range), input
    // kept, running sums re-solved row by row. For N >= 255 the recorded
    // modulus alias (bits of x + r, x + 2r) is a second bit vector by
    // construction: that class is excluded from the claim, every other
    // non-canonical vector still counts.
    {
        let alias_vectors: Vec<Vec<F>> = if n >= 255 {
            let mut v = Vec::new();
            let mut u = f_int(&x);
            for _ in 0..2 {
                let (s2, carry) = u.add(R_MOD);
                if carry || !s2.fits(n as u32) {
                    break;
                }
                u = s2;
                v.push(gadget::bits_of(u, n));
            }
            v
        } else {
            Vec::new()
        };
        let inp = g.handle_wit(2);
        let i = (c.small as usize) % n;
        let bw = g.handle_wit(3 + i);
        for (name, fv) in [("flipped", F::one() - want_bits[i]), ("set to 2", F::from(2u64)), ("set to -1", -F::one())] {
            ctx.add_evals(1);
            ctx.label("adversary: propagation from a forged bit");
            let wb = want_bits.clone();
            let gref = &g;
            let aliases = alias_vectors.clone();
            if let Some(msg) = gadget::propagation_attack(&g, &[(inp, x), (bw, fv)], c.seed, &format!("component_decomposition::<{n}>({}), bit {i} {name}", fe_short(&x)), move |asg| {
                let got: Vec<F> = (0..n).map(|j| asg[gref.handle_wit(3 + j)]).collect();
                got != wb && !aliases.iter().any(|a| *a == got)
            })? {
                return Err(Fail::new("decomposition-resolved-wires-accepted", msg));
            }
        }
        if !fits {
            // oversized input: any completion is a contradiction
            ctx.add_evals(1);
            ctx.label("adversary: propagation with an oversized input");
            if let Some(msg) = gadget::propagation_attack(&g, &[(inp, x)], c.seed, &format!("component_decomposition::<{n}>({}) with the value not below 2^{n}", fe_short(&x)), |_| true)? {
                return Err(Fail::new("decomposition-resolved-wires-accepted", msg));
            }
        }
    }
    let honest_vec = gadget::decomp_vec(&want_bits);
    if !g.role_model_matches(0, 1, &honest_vec) {
        ctx.label("role model mismatch: adversarial tier skipped");
        return Ok(());
    }
    let xi = f_int(&x);
    let mut cands: Vec<(String, Vec<F>)> = Vec::new();
    for k in 1..=2u32 {
        let mut u = xi;
        let mut ok = true;
        for _ in 0..k {
            let (s, carry) = u.add(R_MOD);
            ok &= !carry;
            u = s;
        }
        if ok && u.fits(n as u32) {
            cands.push((format!("bits of x+{k}r"), gadget::bits_of(u, n)));
        }
    }
    // bits of another value
    cands.push(("bits of another value".into(), gadget::bits_of(f_int(&c.r2.0), n)));
    // carry pattern: ...01 <-> ...(-1)(1)... non-boolean digits with the same sum
    if n >= 2 {
        let mut b = want_bits.clone();
        let i = (c.small as usize) % (n - 1);
        b[i] += F::from(2u64);
        b[i + 1] -= F::one();
        cands.push(("non-boolean digits with the same sum".into(), b));
    }
    // one bit flipped and nothing else (the top bit, and a generated position)
    for (name, i) in [("top bit flipped", n - 1), ("one bit flipped", (c.small as usize * 7 + c.seed as usize) % n)] {
        let mut b = want_bits.clone();
        b[i] = F::one() - b[i];
        cands.push((name.into(), b));
    }
    // top bit absorbs the excess
    {
        let mut b = gadget::bits_of(xi, n);
        if n < 256 {
            b[n - 1] = f_of(xi.shr((n - 1) as u32));
        }
        cands.push(("oversized top bit".into(), b));
    }
    for (name, bits) in cands {
        let vec = gadget::decomp_vec(&bits);
        let a = g.splice(&g.wit, 0, 1, &vec);
        ctx.add_evals(1);
        ctx.label(&format!("adversary: {name}"));
        if g.eval(&a).is_empty() && (bits != want_bits || !fits) {
            let real = g.prove_assignment(&a, c.seed)?;
            return Err(Fail::new(
                if n >= 255 && name.starts_with("bits of x+") {
                    "decomposition-modulus-alias-accepted-N255-256"
                } else {
                    "decomposition-forged-bits-accepted"
                },
                format!(
                    "component_decomposition::<{n}>({}): bit vector '{name}' (differs from the canonical bits) satisfies every row (real prover+verifier: {real:?})",
                    fe_short(&x)
                ),
            ));
        }
    }
    ctx.nontrivial_json(&("d", n, c.vclass, c.r, c.small));
    ctx.sample(&cls, || json!({"N": n, "x": fe_short(&x), "fits": fits}));
    Ok(())
}

fn sweep(ctx: &Ctx) {
    let rr = crate::fe::f_stream(ctx.seed ^ 0x11, 4);
    for dec in [false, true] {
        let (lo, hi) = if dec { (1usize, 256usize) } else { (0, 254) };
        for n in lo..=hi {
            for vclass in [0u8, 2, 3, 4, 6] {
                let c = Case {
                    decomposition: dec,
                    n: n as u16,
                    vclass,
                    r: Fe(rr[vclass as usize % 4]),
                    r2: Fe(rr[(vclass as usize + 1) % 4]),
                    small: (n % 11) as u8,
                    prove: false,
                    seed: ctx.seed ^ n as u64,
                };
                if let Err(f) = check(ctx, &c) {
                    ctx.violation("bits", &f, serde_json::to_value(&c).unwrap());
                    if !ctx.is_known(&f.sig) {
                        return;
                    }
                }
            }
        }
    }
    ctx.label("sweep: every N x 5 boundary values for both gadgets");
}

pub fn props() -> Vec<(Box<dyn PropDyn>, u32, u32)> {
    vec![(Box::new(Prop::new("bits", case_strategy, check).shrink(300)), 4000, 60000)]
}

pub fn sweeps(ctx: &Ctx) {
    sweep(ctx);
}

pub fn describe(ctx: &Ctx) {
    ctx.rule("cases: gadget in {truncate N 0..=254, decomposition N 1..=256} (every N in the sweep) x values {0, 1, r-1, 2^N-1, 2^N, 2^N+j, a value whose sum with r fits 255 bits, random below 2^N, small, random}; adversarial assignments on the unchanged layout: truncate {(high,low) split of x+r and x+2r with honest and forged is_top/guard/inverse wires, shifted split, split of another value, forged wires on the honest split, free change of the returned witness}; decomposition {bits of x+r / x+2r when they fit N bits, bits of another value, non-boolean digits with the same sum, oversized top bit}; plus the model-free propagation adversary for both gadgets (returned witness / one bit / one random internal wire decided by the prover, input kept, all other wires re-solved row by row). Oracle: reference row evaluator, any satisfying assignment with a non-canonical result is pushed through the real prover. non-trivial = every case; distinct by (gadget, N, class, value)");
    ctx.assume("role models of truncate/decomposition witness allocation are validated per case against the honest table");
}
