//! C05 — prover exactness: `prove` returns a proof exactly when the instance
//! satisfies every gate identity of the compiled layout (judged by the
//! reference row evaluator) and its copy constraints.

use std::sync::Arc;

use dusk_bytes::Serializable;
use dusk_jubjub::EDWARDS_D;
use dusk_plonk::prelude::Error;
use proptest::prelude::*;
use serde::{Deserialize, Serialize};
use serde_json::json;

use crate::ensure;
use crate::fe::{fe_any, fe_nonzero, fe_random, pick, Fe, F};
use crate::prog::{self, Op, Pi, Program};
use crate::refver::{self, RefProof, RefVerifier, Version};
use crate::runner::{no_panic, Ctx, Fail, PResult, Prop, PropDyn, Tier};
use crate::spec::{self, Layout, Unsat};
use crate::sys::{self, Route};

#[derive(Debug, Clone, Serialize, Deserialize)]
pub enum Kind {
    Honest,
    /// overwrite witness values on the unchanged layout
    Override { edits: Vec<(u16, Fe)> },
    /// a raw row of one gate family, satisfying or with one component broken
    Family {
        /// 0 arithmetic, 1 range, 2 logic, 3 fixed-base, 4 variable-base
        fam: u8,
        sel_val: Fe,
        violate: Option<u8>,
        /// 0 middle (own anchor row), 1 last row of a full domain,
        /// 2 last row, domain not full
        place: u8,
        with_arith: bool,
        xor: bool,
        r: Vec<Fe>,
    },
    /// a raw row with an arbitrary combination of selectors (several gate
    /// families at once) on arbitrary values
    RandomRaw { sel: Vec<Fe>, mask: u16, vals: [Fe; 4], next: [Fe; 4], pi: Option<Fe> },
    /// a raw family row on which TWO components are violated with residuals
    /// that cancel (r_i + r_j = 0): defeats a prover that weighs two
    /// components with the same separation power
    Compensated { fam: u8, i: u8, j: u8, sel_val: Fe, xor: bool, r: Vec<Fe> },
    /// residuals on m adjacent public-input rows chosen so that the
    /// remainder polynomial has degree < n - d (its top d coefficients vanish):
    /// defeats any detection rule that inspects only the top coefficients
    Structured { m: u8, d: u8, deltas: Vec<Fe> },
    /// every row satisfied, one compiled copy constraint broken
    Drift { a: Fe, b: Fe },
    /// instance with one gate more / fewer
    Size { more: bool },
}

#[derive(Debug, Clone, Serialize, Deserialize)]
pub struct Case {
    pub pre: Vec<Op>,
    pub post: Vec<Op>,
    pub kind: Kind,
    pub seed: u64,
}

fn kind_strategy() -> BoxedStrategy<Kind> {
    prop_oneof![
        2 => Just(Kind::Honest),
        // witness overrides; a quarter of the positions are the built-in ZERO
        // and ONE witnesses (indices 0 and 1), which sit on every unused wire
        6 => proptest::collection::vec((prop_oneof![3 => any::<u16>(), 1 => Just(0u16), 1 => Just(1u16)], fe_any()), 1..3)
            .prop_map(|edits| Kind::Override { edits }),
        12 => (
            0u8..5,
            prop_oneof![3 => Just(Fe(F::one())), 2 => Just(Fe(-F::one())), 1 => Just(Fe(F::from(2u64))), 2 => fe_nonzero()],
            proptest::option::weighted(0.7, 0u8..5),
            0u8..3,
            any::<bool>(),
            any::<bool>(),
            proptest::collection::vec(fe_random(), 12),
        )
            .prop_map(|(fam, sel_val, violate, place, with_arith, xor, r)| Kind::Family {
                fam,
                sel_val,
                violate,
                place,
                with_arith,
                xor,
                r,
            }),
        3 => (
            proptest::collection::vec(prop_oneof![2 => Just(Fe(F::one())), 1 => Just(Fe(-F::one())), 1 => Just(Fe(F::from(2u64))), 2 => fe_random()], 11),
            any::<u16>(),
            proptest::array::uniform4(prop_oneof![1 => Just(Fe(F::zero())), 1 => Just(Fe(F::one())), 2 => fe_any()]),
            proptest::array::uniform4(prop_oneof![1 => Just(Fe(F::zero())), 2 => fe_any()]),
            proptest::option::of(fe_any()),
        )
            .prop_map(|(sel, mask, vals, next, pi)| Kind::RandomRaw { sel, mask, vals, next, pi }),
        4 => (1u8..5, 0u8..5, 0u8..5, prop_oneof![Just(Fe(F::one())), Just(Fe(-F::one())), fe_nonzero()], any::<bool>(), proptest::collection::vec(fe_random(), 12))
            .prop_map(|(fam, i, j, sel_val, xor, r)| Kind::Compensated { fam, i, j, sel_val, xor, r }),
        3 => (2u8..9, 1u8..8, proptest::collection::vec(fe_nonzero(), 8))
            .prop_map(|(m, d, deltas)| Kind::Structured { m, d: d.min(m - 1), deltas }),
        2 => (fe_any(), fe_any()).prop_map(|(a, b)| Kind::Drift { a, b }),
        1 => any::<bool>().prop_map(|more| Kind::Size { more }),
    ]
    .boxed()
}

fn case_strategy(_t: Tier) -> BoxedStrategy<Case> {
    (
        prop_oneof![4 => prog::ops_strategy(8, 2, 0), 1 => prog::ops_strategy(20, 6, 0)],
        prog::ops_strategy(4, 0, 0),
        kind_strategy(),
        any::<u64>(),
    )
        .prop_map(|(pre, post, kind, seed)| Case {
            pre,
            post,
            kind,
            seed,
        })
        .boxed()
}

const FAM_NAMES: [&str; 5] =
    ["arithmetic", "range", "logic", "fixed-base", "variable-base"];

fn comp_count(fam: u8) -> u8 {
    match fam {
        0 => 1,
        1 => 4,
        2 => 5,
        3 => 4,
        _ => 3,
    }
}

/// Construct one raw row of a family. Returns (selectors, values, next-row
/// values, public input). `backward`: the next row is forced to zeros.
#[allow(clippy::too_many_arguments)]
pub fn family_row(
    fam: u8,
    sel_val: F,
    violate: Option<u8>,
    backward: bool,
    with_arith: bool,
    xor: bool,
    r: &[F],
) -> ([F; 11], [F; 4], [F; 4], Option<F>) {
    let mut sel = [F::zero(); 11];
    let zero = F::zero();
    let one = F::one();
    let four = F::from(4u64);
    let inv4 = four.invert().unwrap();
    let inv2 = F::from(2u64).invert().unwrap();
    let small = |x: &F| F::from(x.to_bytes()[0] as u64 % 4);
    let v = violate.map(|k| k % comp_count(fam));
    #[allow(unused_assignments)]
    let mut vals = [zero; 4];
    let mut next = [zero; 4];
    let mut arith_violate = false;
    match fam {
        0 => {
            sel[spec::Q_ARITH] = sel_val;
            sel[spec::Q_M] = r[0];
            sel[spec::Q_L] = r[1];
            sel[spec::Q_R] = r[2];
            sel[spec::Q_O] = r[3];
            sel[spec::Q_F] = r[4];
            vals = [r[5], r[6], r[7], r[8]];
            let inner = r[0] * r[5] * r[6] + r[1] * r[5] + r[2] * r[6] + r[3] * r[7] + r[4] * r[8];
            sel[spec::Q_C] = -inner;
            if v.is_some() {
                sel[spec::Q_C] += one;
            }
            if !backward {
                next = [r[9], r[10], r[11], r[0]];
            }
            return (sel, vals, next, None);
        }
        1 => {
            sel[spec::Q_RANGE] = sel_val;
            let mut q = [small(&r[0]), small(&r[1]), small(&r[2]), small(&r[3])];
            if let Some(k) = v {
                q[k as usize] = F::from(7u64);
            }
            if backward {
                // d' = 0: a = (d' - q4)/4, b = (a - q3)/4, ...
                let a = (zero - q[3]) * inv4;
                let b = (a - q[2]) * inv4;
                let c = (b - q[1]) * inv4;
                let d = (c - q[0]) * inv4;
                vals = [a, b, c, d];
            } else {
                let d = r[4];
                let c = four * d + q[0];
                let b = four * c + q[1];
                let a = four * b + q[2];
                vals = [a, b, c, d];
                next = [r[5], r[6], r[7], four * a + q[3]];
            }
        }
        2 => {
            sel[spec::Q_LOGIC] = sel_val;
            let mut qa = small(&r[0]);
            let mut qb = small(&r[1]);
            let ai = qa.to_bytes()[0];
            let bi = qb.to_bytes()[0];
            let mut qd = F::from(if xor { ai ^ bi } else { ai & bi } as u64);
            let mut w = qa * qb;
            let mut qc = if xor { -one } else { one };
            let mut solve_qc = false;
            match v {
                Some(0) => {
                    qa = F::from(5u64);
                    w = qa * qb;
                    solve_qc = true;
                }
                Some(1) => {
                    qb = F::from(6u64);
                    w = qa * qb;
                    solve_qc = true;
                }
                Some(2) => {
                    qd = F::from(7u64);
                    solve_qc = true;
                }
                Some(3) => {
                    w += one;
                    solve_qc = true;
                }
                Some(_) => {
                    // wrong result of the operation, still a quad
                    qd = F::from(((qd.to_bytes()[0] + 1) % 4) as u64);
                }
                None => {}
            }
            if solve_qc {
                // selector identity is B + E with B = q_c (9D - 3(A+B)):
                // choose q_c so that it vanishes
                let e = spec::logic_select(&qa, &qb, &w, &qd, &zero);
                let den = F::from(9u64) * qd - F::from(3u64) * (qa + qb);
                if let Some(inv) = den.invert() {
                    qc = -e * inv;
                }
            }
            sel[spec::Q_C] = qc;
            if backward {
                vals = [(zero - qa) * inv4, (zero - qb) * inv4, w, (zero - qd) * inv4];
            } else {
                let (a, b, d) = (r[2], r[3], r[4]);
                vals = [a, b, w, d];
                next = [four * a + qa, four * b + qb, r[5], four * d + qd];
            }
        }
        3 => {
            sel[spec::Q_FIXED] = sel_val;
            let x_beta = r[0];
            let y_beta = r[1];
            sel[spec::Q_L] = x_beta;
            sel[spec::Q_R] = y_beta;
            sel[spec::Q_C] = r[2];
            let mut bit = match r[3].to_bytes()[0] % 3 {
                0 => zero,
                1 => one,
                _ => -one,
            };
            if v == Some(0) {
                bit = F::from(2u64);
            }
            let mut c = bit * r[2];
            if v == Some(1) {
                c += one;
            }
            let y_alpha = bit.square() * (y_beta - one) + one;
            let x_alpha = bit * x_beta;
            if backward {
                // a' = b' = 0 forces a*y_alpha + b*x_alpha = 0 etc.
                let (a, b) = match v {
                    Some(2) => (one, zero),
                    Some(3) => (zero, one),
                    _ => (zero, zero),
                };
                // with bit = 0 the step equations read a' = a, b' = b
                let bit_b = if matches!(v, Some(2) | Some(3)) { zero } else { bit };
                let c_b = if matches!(v, Some(2) | Some(3)) { zero } else { c };
                let d = (zero - bit_b) * inv2;
                vals = [a, b, c_b, d];
            } else {
                let (a, b, d) = (r[4], r[5], r[6]);
                let t = c * a * b * EDWARDS_D;
                let mut a_n = (a * y_alpha + b * x_alpha)
                    * (one + t).invert().unwrap_or(one);
                let mut b_n = (b * y_alpha + a * x_alpha)
                    * (one - t).invert().unwrap_or(one);
                if v == Some(2) {
                    a_n += one;
                }
                if v == Some(3) {
                    b_n += one;
                }
                vals = [a, b, c, d];
                next = [a_n, b_n, r[7], d + d + bit];
            }
        }
        _ => {
            sel[spec::Q_VAR] = sel_val;
            if backward {
                let (x1, y1, x2, y2) = match v {
                    Some(0) => (one, zero, zero, one),
                    Some(1) => (zero, one, one, zero),
                    Some(2) => (zero, one, zero, one),
                    None | Some(_) => (zero, zero, r[0], r[1]),
                };
                vals = [x1, y1, x2, y2];
            } else {
                let (x1, y1, x2, y2) = (r[0], r[1], r[2], r[3]);
                let mut x1y2 = x1 * y2;
                if v == Some(0) {
                    x1y2 += one;
                }
                let y1x2 = y1 * x2;
                let t = EDWARDS_D * x1y2 * y1x2;
                let mut x3 = (x1y2 + y1x2) * (one + t).invert().unwrap_or(one);
                let mut y3 = (y1 * y2 + x1 * x2) * (one - t).invert().unwrap_or(one);
                if v == Some(1) {
                    x3 += one;
                }
                if v == Some(2) {
                    y3 += one;
                }
                vals = [x1, y1, x2, y2];
                next = [x3, y3, r[4], x1y2];
            }
        }
    }
    // optionally an arithmetic identity on the same row, absorbed by the PI
    let mut pi = None;
    if with_arith {
        sel[spec::Q_ARITH] = r[8];
        sel[spec::Q_M] = r[9];
        sel[spec::Q_O] = r[10];
        sel[spec::Q_F] = r[11];
        if fam != 3 {
            // fixed-base reads q_l, q_r as its table point
            sel[spec::Q_L] = r[7];
            sel[spec::Q_R] = r[6];
        }
        let rv = spec::RowVals {
            a: vals[0],
            b: vals[1],
            c: vals[2],
            d: vals[3],
            a_n: next[0],
            b_n: next[1],
            d_n: next[3],
        };
        let mut p = -(sel[spec::Q_ARITH] * spec::arith_inner(&sel, &rv));
        if arith_violate {
            p += one;
        }
        pi = Some(p);
    }
    let _ = &mut arith_violate;
    (sel, vals, next, pi)
}

/// field element f with delta(f) = target, if one exists:
/// delta(f) = u (u + 2) with u = f^2 - 3 f
fn delta_preimage(target: &F) -> Option<F> {
    use ff::Field;
    let one = F::one();
    let s1: Option<F> = (one + target).sqrt().into();
    let s1 = s1?;
    for u in [-one + s1, -one - s1] {
        let disc = F::from(9u64) + F::from(4u64) * u;
        let s2: Option<F> = disc.sqrt().into();
        if let Some(s2) = s2 {
            let f = (F::from(3u64) + s2) * F::from(2u64).invert().unwrap();
            if spec::delta(f) == *target {
                return Some(f);
            }
        }
    }
    None
}

/// A raw row of a family on which components i and j carry residuals
/// (r, -r), r != 0, and every other component is satisfied.
pub fn compensated_row(fam: u8, i: u8, j: u8, sel_val: F, xor: bool, r: &[F]) -> Option<([F; 11], [F; 4], [F; 4])> {
    let n = comp_count(fam);
    let (i, j) = ((i % n) as usize, (j % n) as usize);
    if i == j {
        return None;
    }
    let (sel, _, _, _) = family_row(fam, sel_val, None, false, false, xor, r);
    let rv = |vals: &[F; 4], next: &[F; 4]| spec::RowVals { a: vals[0], b: vals[1], c: vals[2], d: vals[3], a_n: next[0], b_n: next[1], d_n: next[3] };
    let four = F::from(4u64);
    let one = F::one();
    let mut sel = sel;
    let vals: [F; 4];
    let next: [F; 4];
    match fam {
        1 => {
            // quads q_i, q_j with delta(q_i) + delta(q_j) = 0, both non-digits
            let mut qi = F::from(5u64) + F::from(r[8].to_bytes()[0] as u64);
            let mut qj = None;
            for _ in 0..40 {
                if let Some(f) = delta_preimage(&-spec::delta(qi)) {
                    qj = Some(f);
                    break;
                }
                qi += one;
            }
            let qj = qj?;
            let mut q = [F::from(1u64), F::from(2u64), F::from(0u64), F::from(3u64)];
            q[i] = qi;
            q[j] = qj;
            let d = r[4];
            let c = four * d + q[0];
            let b = four * c + q[1];
            let a = four * b + q[2];
            vals = [a, b, c, d];
            next = [r[5], r[6], r[7], four * a + q[3]];
        }
        3 => {
            let (x_beta, y_beta, q_c) = (sel[spec::Q_L], sel[spec::Q_R], sel[spec::Q_C]);
            let (a, b, d) = (r[4], r[5], r[6]);
            if i == 0 || j == 0 {
                // digit d outside {-1,0,1}: r0 = d (d-1)(d+1); put -r0 on component j
                let j = if i == 0 { j } else { i };
                let dg = F::from(2u64) + F::from(r[8].to_bytes()[0] as u64 % 5);
                let r0 = dg * (dg - one) * (dg + one);
                let mut c = dg * q_c; // xy_alpha
                if j == 1 {
                    // bit*q_c - xy_alpha = -r0
                    c = dg * q_c + r0;
                }
                let y_alpha = dg.square() * (y_beta - one) + one;
                let x_alpha = dg * x_beta;
                let t = c * a * b * dusk_jubjub::EDWARDS_D;
                let mut a_n = (a * y_alpha + b * x_alpha) * (one + t).invert()?;
                let mut b_n = (b * y_alpha + a * x_alpha) * (one - t).invert()?;
                if j == 2 {
                    // (a_n + a_n t) - rhs = -r0
                    a_n = (a * y_alpha + b * x_alpha - r0) * (one + t).invert()?;
                }
                if j == 3 {
                    b_n = (b * y_alpha + a * x_alpha - r0) * (one - t).invert()?;
                }
                vals = [a, b, c, d];
                next = [a_n, b_n, r[7], d + d + dg];
            } else {
                // honest digit; two of {helper wire, x step, y step} off by (t, -t)
                let dg = match r[8].to_bytes()[0] % 3 {
                    0 => F::zero(),
                    1 => one,
                    _ => -one,
                };
                let t0 = r[9] + one;
                let (lo, hi) = if i < j { (i, j) } else { (j, i) };
                let mut c = dg * q_c;
                if lo == 1 {
                    // bit*q_c - xy_alpha = t0
                    c = dg * q_c - t0;
                }
                let y_alpha = dg.square() * (y_beta - one) + one;
                let x_alpha = dg * x_beta;
                let t = c * a * b * dusk_jubjub::EDWARDS_D;
                // residual of the x step: a_n (1 + t) - rhs_x ; y step: b_n (1 - t) - rhs_y
                let (mut ex, mut ey) = (F::zero(), F::zero());
                if lo == 1 {
                    if hi == 2 { ex = -t0 } else { ey = -t0 }
                } else {
                    ex = t0;
                    ey = -t0;
                }
                let a_n = (a * y_alpha + b * x_alpha + ex) * (one + t).invert()?;
                let b_n = (b * y_alpha + a * x_alpha + ey) * (one - t).invert()?;
                vals = [a, b, c, d];
                next = [a_n, b_n, r[7], d + d + dg];
            }
        }
        4 => {
            let (x1, y1, x2, y2) = (r[0], r[1], r[2], r[3]);
            let t = r[8] + one;
            let y1x2 = y1 * x2;
            if i == 0 || j == 0 {
                // x1*y2 wire off by t (component 0 = -t), component j = +t
                let j = if i == 0 { j } else { i };
                let h = x1 * y2 + t;
                let dd = dusk_jubjub::EDWARDS_D * h * y1x2;
                let mut x3 = (h + y1x2) * (one + dd).invert()?;
                let mut y3 = (y1 * y2 + x1 * x2) * (one - dd).invert()?;
                if j == 1 {
                    x3 = (h + y1x2 - t) * (one + dd).invert()?;
                } else {
                    y3 = (y1 * y2 + x1 * x2 - t) * (one - dd).invert()?;
                }
                vals = [x1, y1, x2, y2];
                next = [x3, y3, r[4], h];
            } else {
                // honest helper wire; x3 and y3 residuals (t, -t)
                let h = x1 * y2;
                let dd = dusk_jubjub::EDWARDS_D * h * y1x2;
                let x3 = (h + y1x2 + t) * (one + dd).invert()?;
                let y3 = (y1 * y2 + x1 * x2 - t) * (one - dd).invert()?;
                vals = [x1, y1, x2, y2];
                next = [x3, y3, r[4], h];
            }
        }
        2 => {
            let (lo, hi) = if i < j { (i, j) } else { (j, i) };
            let mut qs = [F::from(1u64), F::from(2u64), F::from(3u64)]; // A, B, D
            let nine = F::from(9u64);
            let three = F::from(3u64);
            let (a, b, d) = (r[2], r[3], r[4]);
            // the selector identity is affine in q_c: e(q_c = 0) + q_c * den
            let solve_qc = |qs: &[F; 3], w: &F, target: F| -> Option<F> {
                let e = spec::logic_select(&qs[0], &qs[1], w, &qs[2], &F::zero());
                let den = nine * qs[2] - three * (qs[0] + qs[1]);
                Some((target - e) * Option::<F>::from(den.invert())?)
            };
            if hi <= 2 {
                // two of the three quad-range components with cancelling
                // deltas; the selector identity is re-solved through q_c
                let mut qi = F::from(6u64) + F::from(r[8].to_bytes()[0] as u64);
                let mut qj = None;
                for _ in 0..40 {
                    if let Some(f) = delta_preimage(&-spec::delta(qi)) {
                        qj = Some(f);
                        break;
                    }
                    qi += one;
                }
                qs[i] = qi;
                qs[j] = qj?;
                let w = qs[0] * qs[1];
                sel[spec::Q_C] = solve_qc(&qs, &w, F::zero())?;
                vals = [a, b, w, d];
            } else if lo <= 2 {
                // one quad outside {0..3} (residual r0) against the product
                // wire (hi = 3) or the selector identity (hi = 4)
                qs[lo] = F::from(5u64) + F::from(r[8].to_bytes()[0] as u64 % 9);
                let r0 = spec::delta(qs[lo]);
                // probe the sign convention of the product-wire component
                let probe = {
                    let mut s2 = sel;
                    s2[spec::Q_C] = one;
                    let w1 = qs[0] * qs[1] + one;
                    let v = rv(&[a, b, w1, d], &[four * a + qs[0], four * b + qs[1], r[5], four * d + qs[2]]);
                    spec::logic_components(&s2, &v)[3]
                };
                let mut w = qs[0] * qs[1];
                let mut target = F::zero();
                if hi == 3 {
                    // component 3 = probe * (w - AB) must equal -r0
                    w -= r0 * Option::<F>::from(probe.invert())?;
                } else {
                    target = -r0;
                }
                sel[spec::Q_C] = solve_qc(&qs, &w, target)?;
                // component 4 carries the selector value: undo its scaling by probing
                let v = rv(&[a, b, w, d], &[four * a + qs[0], four * b + qs[1], r[5], four * d + qs[2]]);
                let got = spec::logic_components(&sel, &v)[4];
                if got != target {
                    // the component is a multiple of the raw identity: rescale once
                    let raw = spec::logic_select(&qs[0], &qs[1], &w, &qs[2], &sel[spec::Q_C]);
                    if raw == F::zero() {
                        return None;
                    }
                    let scale = got * Option::<F>::from(raw.invert())?;
                    sel[spec::Q_C] = solve_qc(&qs, &w, target * Option::<F>::from(scale.invert())?)?;
                }
                vals = [a, b, w, d];
            } else {
                // product wire (3) against the selector identity (4)
                let t0 = r[9] + one;
                let w = qs[0] * qs[1] + t0;
                let v0 = {
                    let mut s2 = sel;
                    s2[spec::Q_C] = F::zero();
                    let v = rv(&[a, b, w, d], &[four * a + qs[0], four * b + qs[1], r[5], four * d + qs[2]]);
                    (spec::logic_components(&s2, &v)[3], spec::logic_components(&s2, &v)[4])
                };
                let v1 = {
                    let mut s2 = sel;
                    s2[spec::Q_C] = one;
                    let v = rv(&[a, b, w, d], &[four * a + qs[0], four * b + qs[1], r[5], four * d + qs[2]]);
                    spec::logic_components(&s2, &v)[4]
                };
                // component 4 is affine in q_c: v0.1 + q_c (v1 - v0.1) = -component 3
                let slope = v1 - v0.1;
                sel[spec::Q_C] = (-v0.0 - v0.1) * Option::<F>::from(slope.invert())?;
                vals = [a, b, w, d];
            }
            next = [four * a + qs[0], four * b + qs[1], r[5], four * d + qs[2]];
        }
        _ => return None,
    }
    // sanity: exactly components i and j are off and cancel
    let v = rv(&vals, &next);
    let comps: Vec<F> = match fam {
        1 => spec::range_components(&v).to_vec(),
        2 => spec::logic_components(&sel, &v).to_vec(),
        3 => spec::fixed_components(&sel, &v).to_vec(),
        _ => spec::var_components(&v).to_vec(),
    };
    let nz: Vec<usize> = (0..comps.len()).filter(|k| comps[*k] != F::zero()).collect();
    if nz.len() != 2 || comps[nz[0]] + comps[nz[1]] != F::zero() {
        return None;
    }
    Some((sel, vals, next))
}

fn fe4(v: [F; 4]) -> [Fe; 4] {
    [Fe(v[0]), Fe(v[1]), Fe(v[2]), Fe(v[3])]
}

/// ops of the compiled program and of the proving instance
fn materialise(c: &Case) -> Result<(Vec<Op>, Vec<Op>, Vec<(usize, F)>, String), Fail> {
    let mut compiled = c.pre.clone();
    let mut instance;
    let mut overrides = Vec::new();
    let mut class = String::new();
    match &c.kind {
        Kind::Honest => {
            compiled.extend(c.post.clone());
            instance = compiled.clone();
            class.push_str("honest");
        }
        Kind::Override { edits } => {
            compiled.extend(c.post.clone());
            instance = compiled.clone();
            let (comp, _) = prog::build(&Program::solved(compiled.clone()))
                .map_err(|e| Fail::new("honest-build-error", format!("{e:?}")))?;
            let nw = comp.verif_witness_count();
            for (i, v) in edits {
                // 0 and 1 name the built-in constant witnesses literally
                let idx = if *i <= 1 { *i as usize } else { pick(*i, nw) };
                overrides.push((idx, v.0));
                if idx <= 1 {
                    class.push_str("override of a built-in constant witness ");
                }
            }
            class.push_str("override");
        }
        Kind::Family {
            fam,
            sel_val,
            violate,
            place,
            with_arith,
            xor,
            r,
        } => {
            let fam = fam % 5;
            let backward = place % 3 != 0;
            let rr: Vec<F> = r.iter().map(|x| x.0).collect();
            let (sel, vals, next, pi) =
                family_row(fam, sel_val.0, *violate, backward, *with_arith, *xor, &rr);
            let raw = Op::Raw {
                sel: sel.iter().map(|x| Fe(*x)).collect(),
                vals: fe4(vals),
                next: if backward { None } else { Some(fe4(next)) },
                pi: match pi {
                    None => Pi::None,
                    Some(p) => Pi::Val(Fe(p)),
                },
            };
            if backward {
                // raw row must be the last row; with place 1 the domain is full
                compiled.extend(c.post.clone());
                let (comp, _) = prog::build(&Program::solved(compiled.clone()))
                    .map_err(|e| Fail::new("honest-build-error", format!("{e:?}")))?;
                let n0 = comp.constraints() + 1;
                let target = if place % 3 == 1 {
                    n0.next_power_of_two()
                } else {
                    // not a power of two
                    if (n0 + 1).is_power_of_two() || n0.is_power_of_two() { n0 + 2 } else { n0 }
                };
                if target > n0 {
                    compiled.push(Op::Pad((target - n0) as u16));
                }
                compiled.push(raw);
            } else {
                compiled.push(raw);
                compiled.extend(c.post.clone());
            }
            instance = compiled.clone();
            class = format!(
                "family {} {} place{} {}",
                FAM_NAMES[fam as usize],
                match violate {
                    None => "satisfying".to_string(),
                    Some(k) => format!("violate{}", k % comp_count(fam)),
                },
                place % 3,
                if *with_arith { "+arith" } else { "" }
            );
        }
        Kind::Compensated { fam, i, j, sel_val, xor, r } => {
            let rr: Vec<F> = r.iter().map(|x| x.0).collect();
            let fam = 1 + (fam - 1) % 4;
            let Some((sel, vals, next)) = compensated_row(fam, *i, *j, sel_val.0, *xor, &rr) else {
                return Err(Fail::new("skip-compensated", "no compensated pair for this combination"));
            };
            compiled.push(Op::Raw {
                sel: sel.iter().map(|x| Fe(*x)).collect(),
                vals: fe4(vals),
                next: Some(fe4(next)),
                pi: Pi::None,
            });
            compiled.extend(c.post.clone());
            instance = compiled.clone();
            class = format!("family {} two components with cancelling residuals", FAM_NAMES[fam as usize]);
        }
        Kind::Structured { m, .. } => {
            compiled.extend(c.post.clone());
            for i in 0..*m {
                compiled.push(Op::Public(Fe(F::from(100 + i as u64))));
            }
            instance = compiled.clone();
            class = "structured multi-row residual".to_string();
        }
        Kind::RandomRaw { sel, mask, vals, next, pi } => {
            // selectors switched on by the mask; everything else zero
            let sel: Vec<Fe> = sel
                .iter()
                .enumerate()
                .map(|(i, s)| if mask & (1 << i) != 0 { *s } else { Fe(F::zero()) })
                .collect();
            compiled.push(Op::Raw {
                sel,
                vals: *vals,
                next: Some(*next),
                pi: match pi {
                    None => Pi::None,
                    Some(p) => Pi::Val(*p),
                },
            });
            compiled.extend(c.post.clone());
            instance = compiled.clone();
            let fams = (mask >> 6) & 0x1f;
            class = format!("random raw row ({} selector families on)", fams.count_ones());
        }
        Kind::Drift { a, b } => {
            // a witness pinned by a constant gate also sits on an
            // unconstrained wire (all selectors zero) of a later gate; the
            // instance puts another witness there. The wire reference is
            // resolved in `check` once the number of handles is known.
            compiled.extend(c.post.clone());
            let zero = Fe(F::zero());
            compiled.push(Op::Const(*a));
            compiled.push(Op::Wit(*b));
            compiled.push(Op::Gate {
                q: [zero; 5],
                qc: zero,
                w: [0, 0, 0, 0],
                pi: Pi::None,
            });
            instance = compiled.clone();
            class.push_str("drift");
        }
        Kind::Size { more } => {
            compiled.extend(c.post.clone());
            compiled.push(Op::Pad(1));
            instance = compiled.clone();
            if *more {
                instance.push(Op::Pad(1));
            } else {
                instance.pop();
            }
            class.push_str(if *more { "size+1" } else { "size-1" });
        }
    }
    Ok((compiled, instance, overrides, class))
}

fn check(ctx: &Ctx, c: &Case) -> PResult {
    let (compiled_ops, mut instance_ops, overrides, class) = match materialise(c) {
        Ok(x) => x,
        Err(f) if f.sig == "skip-compensated" => {
            ctx.excluded("compensated pair not constructible for this (family, i, j)");
            return Ok(());
        }
        Err(f) => return Err(f),
    };
    let compiled = Arc::new(Program::solved(compiled_ops.clone()));
    let (comp_c, _) = no_panic("honest-build-panic", || prog::build(&compiled))?
        .map_err(|e| Fail::new("honest-build-error", format!("{e:?}")))?;
    let layout = Layout::from_snapshot(&comp_c.verif_snapshot());
    let n = layout.rows.len();

    if let Kind::Structured { m, d, deltas } = &c.kind {
        let (_, tr) = prog::build(&compiled)
            .map_err(|e| Fail::new("honest-build-error", format!("{e:?}")))?;
        let m = *m as usize;
        let d = (*d as usize).min(m - 1);
        // the last m handles are the public witnesses; their rows are the
        // last m rows
        let nh = tr.wits.len();
        let first_row = n - m;
        let size = layout.size();
        let w = crate::naive::omega(size.trailing_zeros());
        // unknown residuals e_0..e_{m-1} on rows first_row+i with
        // sum_i e_i w^{(first_row+i) t} = 0 for t = 1..=d; the first m-d are
        // given, the last d solved by Gaussian elimination
        let free: Vec<F> = (0..m - d).map(|i| deltas[i % deltas.len()].0).collect();
        let coef = |i: usize, t: usize| crate::naive::pow(w, ((first_row + i) * t) as u64);
        let mut a = vec![vec![F::zero(); d + 1]; d];
        for t in 1..=d {
            for k in 0..d {
                a[t - 1][k] = coef(m - d + k, t);
            }
            let mut rhs = F::zero();
            for (i, e) in free.iter().enumerate() {
                rhs -= *e * coef(i, t);
            }
            a[t - 1][d] = rhs;
        }
        let mut ok = true;
        for col in 0..d {
            let Some(piv) = (col..d).find(|r| a[*r][col] != F::zero()) else {
                ok = false;
                break;
            };
            a.swap(col, piv);
            let inv = a[col][col].invert().unwrap();
            for k in col..=d {
                a[col][k] *= inv;
            }
            for r in 0..d {
                if r != col {
                    let f = a[r][col];
                    if f != F::zero() {
                        for k in col..=d {
                            let v = a[col][k];
                            a[r][k] -= f * v;
                        }
                    }
                }
            }
        }
        if !ok {
            ctx.excluded("structured residual: singular system");
            return Ok(());
        }
        let mut e = free;
        for r in 0..d {
            e.push(a[r][d]);
        }
        // row identity is -a + PI = 0: shifting the witness by delta leaves
        // the residual -delta
        let overrides: Vec<(usize, F)> = (0..m)
            .map(|i| {
                let h = nh - m + i;
                (tr.wits[h].index(), tr.model[h] - e[i])
            })
            .collect();
        return run(ctx, c, compiled, instance_ops, overrides, format!("{class} m={m} top{d}-coefficients-cancel"));
    }
    if let Kind::Drift { .. } = c.kind {
        // re-point the last gate's wire `a` from the last handle (the Wit) to
        // the Const handle: find picks by count of handles
        let (_, tr) = prog::build(&compiled)
            .map_err(|e| Fail::new("honest-build-error", format!("{e:?}")))?;
        let handles = tr.wits.len();
        // compiled: wire a -> Const handle (second to last); instance: -> Wit
        // handle (last). Picks: index i of `handles` <- smallest u16 p with
        // p*handles >> 16 == i.
        let pick_for = |i: usize| -> u16 {
            (((i as u64) << 16).div_ceil(handles as u64)) as u16
        };
        let mut comp_ops = compiled_ops.clone();
        let last = comp_ops.len() - 1;
        if let Op::Gate { w, .. } = &mut comp_ops[last] {
            w[0] = pick_for(handles - 2);
        }
        if let Op::Gate { w, .. } = instance_ops.last_mut().unwrap() {
            w[0] = pick_for(handles - 1);
        }
        return run(ctx, c, Arc::new(Program::solved(comp_ops)), instance_ops, overrides, class);
    }
    let _ = n;
    run(ctx, c, compiled, instance_ops, overrides, class)
}

fn run(
    ctx: &Ctx,
    c: &Case,
    compiled: Arc<Program>,
    instance_ops: Vec<Op>,
    overrides: Vec<(usize, F)>,
    class: String,
) -> PResult {
    let (comp_c, _) = prog::build(&compiled)
        .map_err(|e| Fail::new("honest-build-error", format!("{e:?}")))?;
    let layout = Layout::from_snapshot(&comp_c.verif_snapshot());
    let n = layout.rows.len();
    let mut inst = Program::solved(instance_ops);
    inst.overrides = overrides;
    let inst = Arc::new(inst);
    let (inst_c, _) = no_panic("instance-build-panic", || prog::build(&inst))?
        .map_err(|e| Fail::new("instance-build-error", format!("{e:?}")))?;
    let isnap = inst_c.verif_snapshot();
    let ilayout = Layout::from_snapshot(&isnap);

    // reference verdict
    let size_ok = ilayout.rows.len() == n;
    let unsat: Vec<Unsat> = if size_ok {
        let table = spec::wire_table(&ilayout, &isnap.witnesses);
        let mut pi = vec![F::zero(); layout.size()];
        for (r, v) in &isnap.public_inputs {
            if *r < pi.len() {
                pi[*r] = *v;
            }
        }
        spec::sat(&layout, &table, &pi)
    } else {
        Vec::new()
    };
    // the instance must keep the compiled selectors (else the case is not
    // about the assignment); wiring may differ only for Drift
    if size_ok {
        for (a, b) in layout.rows.iter().zip(&ilayout.rows) {
            if a.sel != b.sel {
                ctx.excluded("instance changed selectors (harness)");
                return Ok(());
            }
        }
        if ilayout.pi_rows != layout.pi_rows {
            ctx.excluded("instance changed PI rows (harness)");
            return Ok(());
        }
    }

    let pp = sys::pp(sys::min_capacity(n).max(32));
    let (prover, verifier) = sys::compile(&pp, b"c05", &compiled, Route::Instance)
        .map_err(|e| Fail::new("compile-error", format!("{e:?}")))?;
    let res = no_panic("prove-panic", || sys::prove(&prover, &inst, c.seed))?;

    let verdict = if !size_ok {
        "size-mismatch"
    } else if unsat.is_empty() {
        "satisfied"
    } else {
        "unsatisfied"
    };
    ctx.eval(&format!("{class}: {verdict}"));
    match (&res, verdict) {
        (Ok((proof, pi)), "satisfied") => {
            no_panic("verify-panic", || verifier.verify(proof, pi))?.map_err(|e| {
                Fail::new(
                    "proof-of-satisfied-instance-rejected",
                    format!("{class}: prove returned a proof that fails verification: {e:?}"),
                )
            })?;
            let rv = RefVerifier::parse(&verifier.to_bytes()).map_err(|e| Fail::new("refver-parse", e))?;
            let rp = RefProof::parse(&proof.to_bytes()).map_err(|e| Fail::new("refver-parse", e))?;
            ensure!(
                refver::verify(&rv, &rp, pi, Version::V3).accept,
                "reference-verifier-rejects-honest",
                "{class}: reference verifier rejects the proof of a satisfied instance"
            );
        }
        (Ok(_), "unsatisfied") => {
            return Err(Fail::new(
                format!(
                    "proof-for-unsatisfied:{}:{}",
                    unsat[0].family, unsat[0].component
                ),
                format!(
                    "{class}: prove returned a proof although the reference evaluator reports {:?} (n={n})",
                    &unsat[..unsat.len().min(3)]
                ),
            ));
        }
        (Ok(_), _) => {
            return Err(Fail::new(
                "proof-for-size-mismatch",
                format!("{class}: prove returned a proof for an instance with {} gates against {n}", ilayout.rows.len()),
            ));
        }
        (Err(Error::CircuitUnsatisfied), "unsatisfied") => {}
        (Err(Error::InvalidCircuitSize(..)), "size-mismatch") => {}
        (Err(e), "satisfied") => {
            return Err(Fail::new(
                format!("satisfied-instance-refused:{}", sys::err_name(e)),
                format!("{class}: the reference evaluator finds every row and copy constraint satisfied, prove returned {e:?} (n={n})"),
            ));
        }
        (Err(e), v) => {
            return Err(Fail::new(
                format!("wrong-error:{}", sys::err_name(e)),
                format!("{class}: expected the {v} error, got {e:?}"),
            ));
        }
    }
    // coverage matrix
    if verdict == "unsatisfied" {
        let mut fams: Vec<(&str, &str)> = unsat.iter().map(|u| (u.family, u.component)).collect();
        fams.sort();
        fams.dedup();
        if fams.len() == 1 && unsat.len() == 1 {
            ctx.label(&format!("isolated violation: {} / {}", fams[0].0, fams[0].1));
        } else {
            for f in &fams {
                ctx.label(&format!("violation among several: {} / {}", f.0, f.1));
            }
        }
        if unsat.iter().any(|u| u.row + 1 == n && n.is_power_of_two()) {
            ctx.label("violated row is the last row of a full domain");
        }
    }
    if let Kind::Family { place, violate: None, .. } = &c.kind {
        if place % 3 == 1 && verdict == "satisfied" {
            ctx.label("satisfied selected row on the last row of a full domain (next row = row 0)");
        }
    }
    ctx.nontrivial_json(&(layout.digest().to_vec(), &class, verdict, c.seed));
    ctx.sample(&format!("{class}: {verdict}"), || {
        json!({"class": class, "constraints": n, "verdict": verdict, "reference": unsat.iter().take(3).collect::<Vec<_>>()})
    });
    Ok(())
}

/// SPEC self-check: the logic selector identity vanishes exactly on the
/// truth tables of AND / XOR over quads (independent of the implementation).
fn spec_selfcheck(ctx: &Ctx) {
    for a in 0u64..4 {
        for b in 0u64..4 {
            for d in 0u64..4 {
                for (qc, op) in [(F::one(), a & b), (-F::one(), a ^ b)] {
                    let z = spec::logic_select(&F::from(a), &F::from(b), &F::from(a * b), &F::from(d), &qc);
                    let want = d == op;
                    if (z == F::zero()) != want {
                        ctx.infra_problem(format!("SPEC logic selector wrong at A={a} B={b} D={d}"));
                    }
                }
            }
        }
    }
    ctx.label("spec self-check: logic truth tables (128 entries)");
}

pub fn props() -> Vec<(Box<dyn PropDyn>, u32, u32)> {
    vec![(
        Box::new(Prop::new("exact", case_strategy, check).shrink(150)),
        2400,
        30000,
    )]
}

pub fn sweeps(ctx: &Ctx) {
    spec_selfcheck(ctx);
}

pub fn describe(ctx: &Ctx) {
    ctx.rule("cases: a generated context program plus one of {honest; 1-2 witness overrides on the unchanged layout; a raw row of one gate family (selector value 1/-1/2/random, optionally with an arithmetic identity on the same row absorbed by a public input) that is satisfying or has exactly one chosen component broken, placed mid-circuit, on the last row of a full domain (next row = row 0) or on the last row of a non-full domain (next row = padding); wiring drift (all rows satisfied, one compiled copy constraint broken); instance with one gate more/fewer}. Oracle: reference row evaluator + copy classes of the compiled layout => prove is Ok iff satisfied, else exactly CircuitUnsatisfied / InvalidCircuitSize; Ok proofs verify (implementation and reference verifier). non-trivial = every evaluated case; distinct by (layout digest, class, verdict, seed)");
    ctx.assume("reference evaluator = harness/src/spec.rs (trusted; separation challenges make joint cancellation of distinct components negligible)");
}
