//! C19 — FFT and polynomial kernels equal their mathematical definitions.

use std::collections::HashMap;
use std::sync::{Arc, Mutex, OnceLock};

use dusk_plonk::verif as k;
use proptest::prelude::*;
use serde::{Deserialize, Serialize};
use serde_json::json;

use crate::ensure;
use crate::fe::{f_stream, fe_any, pick, Fe, F};
use crate::naive;
use crate::runner::{no_panic, Ctx, Fail, PResult, Prop, PropDyn, Tier};

pub fn pool(threads: usize) -> Arc<rayon::ThreadPool> {
    static POOLS: OnceLock<Mutex<HashMap<usize, Arc<rayon::ThreadPool>>>> =
        OnceLock::new();
    let m = POOLS.get_or_init(|| Mutex::new(HashMap::new()));
    let mut g = m.lock().unwrap();
    g.entry(threads)
        .or_insert_with(|| {
            Arc::new(
                rayon::ThreadPoolBuilder::new()
                    .num_threads(threads)
                    .build()
                    .expect("pool"),
            )
        })
        .clone()
}

pub fn in_pool<T: Send>(threads: u8, f: impl FnOnce() -> T + Send) -> T {
    if threads == 0 {
        f()
    } else {
        pool(threads as usize).install(f)
    }
}

#[derive(Debug, Clone, Serialize, Deserialize)]
pub struct VecSpec {
    pub seed: u64,
    /// 0 random, 1 zeros, 2 random with trailing zeros, 3 sparse, 4 small ints
    pub kind: u8,
    pub explicit: Vec<(u16, Fe)>,
}

impl VecSpec {
    pub fn expand(&self, len: usize) -> Vec<F> {
        let mut v: Vec<F> = match self.kind % 5 {
            0 => f_stream(self.seed, len),
            1 => vec![F::zero(); len],
            2 => {
                let mut v = f_stream(self.seed, len);
                let z = (self.seed as usize % 7) + 1;
                for i in len.saturating_sub(z)..len {
                    v[i] = F::zero();
                }
                v
            }
            3 => {
                let mut v = vec![F::zero(); len];
                let r = f_stream(self.seed, 4);
                for (j, x) in r.iter().enumerate() {
                    if len > 0 {
                        let i = (self.seed as usize)
                            .wrapping_mul(31 + j)
                            .wrapping_add(j * 977)
                            % len;
                        v[i] = *x;
                    }
                }
                v
            }
            _ => (0..len)
                .map(|i| F::from(((self.seed as usize + i) % 11) as u64))
                .collect(),
        };
        for (i, x) in &self.explicit {
            if len > 0 {
                v[pick(*i, len)] = x.0;
            }
        }
        v
    }
}

fn vecspec() -> impl Strategy<Value = VecSpec> {
    (
        any::<u64>(),
        0u8..5,
        proptest::collection::vec((any::<u16>(), fe_any()), 0..4),
    )
        .prop_map(|(seed, kind, explicit)| VecSpec {
            seed,
            kind,
            explicit,
        })
}

fn len_of(class: u8, jitter: u16, n: usize, allow_long: bool) -> usize {
    let l = match class % 12 {
        0 => 0,
        1 => 1,
        2 => n / 2,
        3 => n.saturating_sub(1),
        4 => n,
        5 => n + 1,
        6 => 2 * n,
        7 => 2 * n + 1,
        8 => 3 * n,
        9 => 5 * n + 3,
        10 => pick(jitter, 6 * n + 1),
        _ => pick(jitter, 2 * n + 1),
    };
    if allow_long {
        l
    } else {
        l.min(n)
    }
}

// ---------------------------------------------------------------- forward

#[derive(Debug, Clone, Serialize, Deserialize)]
pub struct FftCase {
    pub log_n: u32,
    pub len_class: u8,
    pub jitter: u16,
    pub vec: VecSpec,
    pub coset: bool,
    pub pool: u8,
}

fn max_log(t: Tier) -> u32 {
    t.pick(13, 14)
}
fn full_log(t: Tier) -> u32 {
    t.pick(9, 11)
}

fn log_n_strategy(t: Tier) -> BoxedStrategy<u32> {
    let m = max_log(t);
    prop_oneof![
        6 => 0u32..=6,
        4 => 7u32..=10,
        2 => 11u32..=m,
    ]
    .boxed()
}

fn fft_case(t: Tier) -> BoxedStrategy<FftCase> {
    (
        log_n_strategy(t),
        0u8..12,
        any::<u16>(),
        vecspec(),
        any::<bool>(),
        prop_oneof![3 => Just(0u8), 2 => 1u8..=17],
    )
        .prop_map(|(log_n, len_class, jitter, vec, coset, pool)| FftCase {
            log_n,
            len_class,
            jitter,
            vec,
            coset,
            pool,
        })
        .boxed()
}

fn sample_positions(n: usize, seed: u64, count: usize) -> Vec<usize> {
    let mut v = vec![0, n - 1, n / 2];
    let mut s = seed;
    for _ in 0..count {
        s = crate::runner::splitmix(s);
        v.push((s as usize) % n);
    }
    v.sort();
    v.dedup();
    v
}

fn check_fft(ctx: &Ctx, c: &FftCase) -> PResult {
    let n = 1usize << c.log_n;
    let len = len_of(c.len_class, c.jitter, n, true);
    let coeffs = c.vec.expand(len);
    let cls = format!(
        "fft{} n=2^{} len{}n pool={}",
        if c.coset { "-coset" } else { "" },
        match c.log_n {
            0..=6 => "0-6",
            7..=10 => "7-10",
            11 => "11",
            _ => "12+",
        },
        if len > n {
            ">"
        } else if len == n {
            "="
        } else {
            "<"
        },
        match c.pool {
            0 => "global",
            1 => "1",
            2..=3 => "2-3",
            _ => "4+",
        }
    );
    ctx.eval(&cls);
    let out = no_panic("fft-panic", || {
        in_pool(c.pool, || {
            if c.coset {
                k::coset_fft(n, &coeffs)
            } else {
                k::fft(n, &coeffs)
            }
        })
    })?
    .map_err(|e| Fail::new("fft-err", format!("{e:?}")))?;
    ensure!(out.len() == n, "fft-len", "output length {} != {}", out.len(), n);
    let shift = if c.coset { naive::coset_gen() } else { F::one() };
    let sig = if len > n {
        "fft-overlong-input-truncated"
    } else {
        "fft-definition"
    };
    if c.log_n <= full_log(ctx.tier) {
        let want = naive::dft(&coeffs, c.log_n, shift);
        for i in 0..n {
            ensure!(
                out[i] == want[i],
                sig,
                "fft output {} differs from direct evaluation (n={}, len={}, coset={})",
                i,
                n,
                len,
                c.coset
            );
        }
    } else {
        let w = naive::omega(c.log_n);
        for i in sample_positions(n, c.vec.seed, 24) {
            let x = shift * naive::pow(w, i as u64);
            ensure!(
                out[i] == naive::horner(&coeffs, &x),
                sig,
                "fft output {} differs from direct evaluation (n={}, len={}, coset={})",
                i,
                n,
                len,
                c.coset
            );
        }
    }
    if n >= 2 && coeffs.iter().any(|x| *x != F::zero()) {
        ctx.nontrivial_json(&("fft", c.log_n, len, c.coset, c.pool, &c.vec));
        ctx.sample(&cls, || json!({"log_n": c.log_n, "len": len, "coset": c.coset, "pool": c.pool, "vec_kind": c.vec.kind}));
    }
    Ok(())
}

// ---------------------------------------------------------------- inverse

fn check_ifft(ctx: &Ctx, c: &FftCase) -> PResult {
    let n = 1usize << c.log_n;
    // evaluation vectors longer than the domain have no meaning: len <= n
    let len = len_of(c.len_class, c.jitter, n, false);
    let vals = c.vec.expand(len);
    let cls = format!(
        "ifft{} n=2^{} len{}n",
        if c.coset { "-coset" } else { "" },
        match c.log_n {
            0..=6 => "0-6",
            7..=10 => "7-10",
            11 => "11",
            _ => "12+",
        },
        if len == n { "=" } else { "<" },
    );
    ctx.eval(&cls);
    let shift = if c.coset { naive::coset_gen() } else { F::one() };
    let (inv, back) = no_panic("ifft-panic", || {
        in_pool(c.pool, || {
            let inv = if c.coset {
                k::coset_ifft(n, &vals)
            } else {
                k::ifft(n, &vals)
            }
            .expect("domain");
            let back = if c.coset {
                k::coset_fft(n, &inv)
            } else {
                k::fft(n, &inv)
            }
            .expect("domain");
            (inv, back)
        })
    })?;
    ensure!(inv.len() == n, "ifft-len", "len {} != {}", inv.len(), n);
    // interpolation: the result evaluates to the inputs on the domain
    let mut padded = vals.clone();
    padded.resize(n, F::zero());
    if c.log_n <= full_log(ctx.tier) {
        let want = naive::idft(&vals, c.log_n, shift);
        ensure!(
            inv == want,
            "ifft-definition",
            "inverse transform differs from Lagrange interpolation (n={n}, len={len}, coset={})",
            c.coset
        );
    } else {
        let w = naive::omega(c.log_n);
        for i in sample_positions(n, c.vec.seed, 24) {
            let x = shift * naive::pow(w, i as u64);
            ensure!(
                naive::horner(&inv, &x) == padded[i],
                "ifft-definition",
                "interpolant does not take value {} (n={n}, len={len}, coset={})",
                i,
                c.coset
            );
        }
    }
    ensure!(
        back == padded,
        "fft-ifft-not-inverse",
        "fft(ifft(v)) != v (n={n}, len={len}, coset={})",
        c.coset
    );
    // and the other order, on coefficient vectors
    let fwd = in_pool(c.pool, || {
        let e = if c.coset {
            k::coset_fft(n, &vals)
        } else {
            k::fft(n, &vals)
        }
        .expect("domain");
        if c.coset {
            k::coset_ifft(n, &e)
        } else {
            k::ifft(n, &e)
        }
        .expect("domain")
    });
    ensure!(
        fwd == padded,
        "ifft-fft-not-inverse",
        "ifft(fft(c)) != c (n={n}, len={len}, coset={})",
        c.coset
    );
    if n >= 2 && vals.iter().any(|x| *x != F::zero()) {
        ctx.nontrivial_json(&("ifft", c.log_n, len, c.coset, c.pool, &c.vec));
        ctx.sample(&cls, || json!({"log_n": c.log_n, "len": len, "coset": c.coset, "pool": c.pool}));
    }
    Ok(())
}

// ---------------------------------------------------------------- pools

#[derive(Debug, Clone, Serialize, Deserialize)]
pub struct PoolCase {
    pub log_n: u32,
    pub seed: u64,
    pub mode: u8,
}

fn pool_case(t: Tier) -> BoxedStrategy<PoolCase> {
    (10u32..=max_log(t), any::<u64>(), 0u8..4)
        .prop_map(|(log_n, seed, mode)| PoolCase { log_n, seed, mode })
        .boxed()
}

fn run_mode(mode: u8, n: usize, v: &[F]) -> Vec<F> {
    match mode % 4 {
        0 => k::fft(n, v),
        1 => k::ifft(n, v),
        2 => k::coset_fft(n, v),
        _ => k::coset_ifft(n, v),
    }
    .expect("domain")
}

fn check_pools(ctx: &Ctx, c: &PoolCase) -> PResult {
    let n = 1usize << c.log_n;
    let v = f_stream(c.seed, n);
    let cls = format!("pools n=2^{} mode={}", c.log_n, c.mode % 4);
    ctx.eval(&cls);
    let base = in_pool(1, || run_mode(c.mode, n, &v));
    let pools: Vec<u8> = match ctx.tier {
        Tier::Quick => vec![0, 2, 3, 4, 5, 7, 8, 13, 16, 17],
        Tier::Thorough => (0..=17).chain([24, 32]).collect(),
    };
    for p in pools {
        let out = no_panic("fft-panic", || in_pool(p, || run_mode(c.mode, n, &v)))?;
        ensure!(
            out == base,
            "fft-pool-dependent",
            "mode {} n=2^{} differs between pool 1 and pool {}",
            c.mode % 4,
            c.log_n,
            p
        );
        ctx.add_evals(1);
    }
    // spot check against the definition too
    let w = naive::omega(c.log_n);
    if c.mode % 4 == 0 {
        for i in sample_positions(n, c.seed, 6) {
            ensure!(
                base[i] == naive::horner(&v, &naive::pow(w, i as u64)),
                "fft-definition",
                "large fft differs from direct evaluation at {}",
                i
            );
        }
    }
    ctx.nontrivial_json(&("pools", c.log_n, c.seed, c.mode % 4));
    ctx.sample(&cls, || json!({"log_n": c.log_n, "mode": c.mode % 4, "seed": c.seed}));
    Ok(())
}

// ---------------------------------------------------------------- poly ops

#[derive(Debug, Clone, Serialize, Deserialize)]
pub enum PolyOp {
    Add(u16, u16),
    Sub(u16, u16),
    Mul(u16, u16),
    Scale(u16, Fe),
    AddScalar(u16, Fe),
    SubScalar(u16, Fe),
    AddAssign(u16, u16),
    AddAssignScaled(u16, Fe, u16),
    SubAssign(u16, u16),
    Neg(u16),
    Ruffini(u16, Fe),
    Eval(u16, Fe),
    Bytes(u16),
}

#[derive(Debug, Clone, Serialize, Deserialize)]
pub struct PolyCase {
    pub init: Vec<(u16, VecSpec)>,
    pub ops: Vec<PolyOp>,
}

fn poly_op() -> impl Strategy<Value = PolyOp> {
    let i = any::<u16>;
    prop_oneof![
        (i(), i()).prop_map(|(a, b)| PolyOp::Add(a, b)),
        (i(), i()).prop_map(|(a, b)| PolyOp::Sub(a, b)),
        (i(), i()).prop_map(|(a, b)| PolyOp::Mul(a, b)),
        (i(), fe_any()).prop_map(|(a, s)| PolyOp::Scale(a, s)),
        (i(), fe_any()).prop_map(|(a, s)| PolyOp::AddScalar(a, s)),
        (i(), fe_any()).prop_map(|(a, s)| PolyOp::SubScalar(a, s)),
        (i(), i()).prop_map(|(a, b)| PolyOp::AddAssign(a, b)),
        (i(), fe_any(), i())
            .prop_map(|(a, f, b)| PolyOp::AddAssignScaled(a, f, b)),
        (i(), i()).prop_map(|(a, b)| PolyOp::SubAssign(a, b)),
        i().prop_map(PolyOp::Neg),
        (i(), fe_any()).prop_map(|(a, z)| PolyOp::Ruffini(a, z)),
        (i(), fe_any()).prop_map(|(a, z)| PolyOp::Eval(a, z)),
        i().prop_map(PolyOp::Bytes),
    ]
}

fn poly_case(_t: Tier) -> BoxedStrategy<PolyCase> {
    (
        proptest::collection::vec(
            (
                prop_oneof![3 => 0u16..12, 2 => 12u16..70, 1 => 70u16..301],
                vecspec(),
            ),
            1..5,
        ),
        proptest::collection::vec(poly_op(), 1..10),
    )
        .prop_map(|(init, ops)| PolyCase { init, ops })
        .boxed()
}

fn check_poly(ctx: &Ctx, c: &PolyCase) -> PResult {
    ctx.eval("poly-ops");
    let mut imp: Vec<k::VerifPoly> = Vec::new();
    let mut model: Vec<Vec<F>> = Vec::new();
    for (len, spec) in &c.init {
        let v = spec.expand(*len as usize);
        imp.push(k::VerifPoly::new(v.clone()));
        model.push(naive::trim(v));
    }
    let probe = f_stream(0xC19, 1)[0];
    let mut muls = 0;
    let mut nonnorm = false;
    for (step, op) in c.ops.iter().enumerate() {
        let n = imp.len();
        let ix = |i: &u16| pick(*i, n);
        let label;
        let (ri, rm): (k::VerifPoly, Vec<F>) = match op {
            PolyOp::Add(a, b) => {
                label = "add";
                (
                    no_panic("poly-panic", || imp[ix(a)].add(&imp[ix(b)]))?,
                    naive::poly_add(&model[ix(a)], &model[ix(b)]),
                )
            }
            PolyOp::Sub(a, b) => {
                label = "sub";
                (
                    no_panic("poly-panic", || imp[ix(a)].sub(&imp[ix(b)]))?,
                    naive::poly_sub(&model[ix(a)], &model[ix(b)]),
                )
            }
            PolyOp::Mul(a, b) => {
                label = "mul";
                muls += 1;
                if muls > 3
                    || model[ix(a)].len() + model[ix(b)].len() > 2000
                {
                    continue;
                }
                (
                    no_panic("poly-panic", || imp[ix(a)].mul(&imp[ix(b)]))?,
                    naive::poly_mul(&model[ix(a)], &model[ix(b)]),
                )
            }
            PolyOp::Scale(a, s) => {
                label = "scale";
                (
                    no_panic("poly-panic", || imp[ix(a)].scale(&s.0))?,
                    naive::poly_scale(&model[ix(a)], &s.0),
                )
            }
            PolyOp::AddScalar(a, s) => {
                label = "add-scalar";
                (
                    no_panic("poly-panic", || imp[ix(a)].add_scalar(&s.0))?,
                    naive::poly_add(&model[ix(a)], &[s.0]),
                )
            }
            PolyOp::SubScalar(a, s) => {
                label = "sub-scalar";
                (
                    no_panic("poly-panic", || imp[ix(a)].sub_scalar(&s.0))?,
                    naive::poly_sub(&model[ix(a)], &[s.0]),
                )
            }
            PolyOp::AddAssign(a, b) => {
                label = "add-assign";
                let mut x = imp[ix(a)].clone();
                let y = imp[ix(b)].clone();
                no_panic("poly-panic", || x.add_assign(&y))?;
                (x, naive::poly_add(&model[ix(a)], &model[ix(b)]))
            }
            PolyOp::AddAssignScaled(a, f, b) => {
                label = "add-assign-scaled";
                let mut x = imp[ix(a)].clone();
                let y = imp[ix(b)].clone();
                no_panic("poly-panic", || x.add_assign_scaled(f.0, &y))?;
                (
                    x,
                    naive::poly_add(
                        &model[ix(a)],
                        &naive::poly_scale(&model[ix(b)], &f.0),
                    ),
                )
            }
            PolyOp::SubAssign(a, b) => {
                label = "sub-assign";
                let mut x = imp[ix(a)].clone();
                let y = imp[ix(b)].clone();
                no_panic("poly-panic", || x.sub_assign(&y))?;
                (x, naive::poly_sub(&model[ix(a)], &model[ix(b)]))
            }
            PolyOp::Neg(a) => {
                label = "neg";
                (
                    no_panic("poly-panic", || imp[ix(a)].neg())?,
                    naive::poly_scale(&model[ix(a)], &-F::one()),
                )
            }
            PolyOp::Ruffini(a, z) => {
                label = "ruffini";
                let q = no_panic("poly-panic", || imp[ix(a)].ruffini(z.0))?;
                let (mq, rem) = naive::div_linear(&model[ix(a)], &z.0);
                // q (X - z) + p(z) = p, by schoolbook multiplication
                let qc = naive::trim(q.coeffs());
                let back = naive::poly_add(
                    &naive::poly_mul(&qc, &[-z.0, F::one()]),
                    &[rem],
                );
                ensure!(
                    back == model[ix(a)],
                    "ruffini-identity",
                    "step {step}: q(X-z)+p(z) != p"
                );
                ensure!(
                    rem == naive::horner(&model[ix(a)], &z.0),
                    "oracle-self-check",
                    "remainder != p(z)"
                );
                (q, mq)
            }
            PolyOp::Eval(a, z) => {
                let got = no_panic("poly-panic", || imp[ix(a)].evaluate(&z.0))?;
                ensure!(
                    got == naive::horner(&model[ix(a)], &z.0),
                    "poly-evaluate",
                    "step {step}: evaluate differs from Horner"
                );
                ctx.label("poly-op eval");
                continue;
            }
            PolyOp::Bytes(a) => {
                let b = imp[ix(a)].to_var_bytes();
                let back = k::VerifPoly::from_slice(&b).map_err(|e| {
                    Fail::new("poly-bytes", format!("from_slice: {e:?}"))
                })?;
                ensure!(
                    naive::trim(back.coeffs()) == model[ix(a)],
                    "poly-bytes",
                    "step {step}: bytes round trip changed the polynomial"
                );
                ctx.label("poly-op bytes");
                continue;
            }
        };
        ctx.label(&format!("poly-op {label}"));
        let raw = ri.coeffs();
        if raw.last().is_some_and(|x| *x == F::zero()) {
            nonnorm = true;
            ctx.label("poly non-normalised result");
        }
        ensure!(
            naive::trim(raw) == rm,
            &format!("poly-{label}"),
            "step {step}: {label} differs from schoolbook arithmetic"
        );
        ensure!(
            ri.evaluate(&probe) == naive::horner(&rm, &probe),
            "poly-evaluate",
            "step {step}: evaluate after {label} differs from Horner"
        );
        ensure!(
            ri.is_zero() == rm.is_empty(),
            "poly-is-zero",
            "step {step}: is_zero wrong after {label}"
        );
        ensure!(
            ri.degree() == rm.len().saturating_sub(1),
            "poly-degree",
            "step {step}: degree {} != {} after {label}",
            ri.degree(),
            rm.len().saturating_sub(1)
        );
        imp.push(ri);
        model.push(rm);
    }
    if model.iter().any(|m| m.len() > 1) {
        ctx.nontrivial_json(c);
        ctx.sample(
            if nonnorm { "poly-ops nonnormalised" } else { "poly-ops" },
            || serde_json::to_value(c).unwrap(),
        );
    }
    Ok(())
}

// ---------------------------------------------------------------- batch inv

#[derive(Debug, Clone, Serialize, Deserialize)]
pub struct InvCase {
    pub v: Vec<Fe>,
    pub zeros: Vec<u16>,
}

fn inv_case(_t: Tier) -> BoxedStrategy<InvCase> {
    (
        proptest::collection::vec(fe_any(), 0..40),
        proptest::collection::vec(any::<u16>(), 0..6),
    )
        .prop_map(|(v, zeros)| InvCase { v, zeros })
        .boxed()
}

fn check_inv(ctx: &Ctx, c: &InvCase) -> PResult {
    let mut v: Vec<F> = c.v.iter().map(|x| x.0).collect();
    for z in &c.zeros {
        if !v.is_empty() {
            let i = pick(*z, v.len());
            v[i] = F::zero();
        }
    }
    let nz = v.iter().filter(|x| **x == F::zero()).count();
    ctx.eval(if v.is_empty() {
        "batch-inv empty"
    } else if nz == v.len() {
        "batch-inv all-zero"
    } else if nz > 0 {
        "batch-inv some-zero"
    } else {
        "batch-inv no-zero"
    });
    let mut w = v.clone();
    no_panic("batch-inversion-panic", || k::batch_inversion(&mut w))?;
    for i in 0..v.len() {
        if v[i] == F::zero() {
            ensure!(w[i] == F::zero(), "batch-inversion", "zero entry {i} changed");
        } else {
            ensure!(
                w[i] * v[i] == F::one(),
                "batch-inversion",
                "entry {i} is not the inverse"
            );
        }
    }
    if v.len() >= 2 && nz < v.len() {
        ctx.nontrivial_json(c);
        ctx.sample("batch-inv", || json!({"len": v.len(), "zeros": nz}));
    }
    Ok(())
}

// ---------------------------------------------------------------- closed forms

#[derive(Debug, Clone, Serialize, Deserialize)]
pub struct ClosedCase {
    pub log_n: u32,
    /// 0 random, 1 domain element, 2 coset element, 3 zero, 4 one
    pub tau_kind: u8,
    pub tau_idx: u16,
    pub tau: Fe,
    pub evals: VecSpec,
    pub evals_len: u16,
    pub rows: Vec<u16>,
    pub pis: Vec<Fe>,
    pub log_d: u32,
    pub deg: u16,
    pub perturb: Option<u16>,
}

fn closed_case(_t: Tier) -> BoxedStrategy<ClosedCase> {
    (
        0u32..=7,
        prop_oneof![4 => Just(0u8), 4 => Just(1u8), 1 => Just(2u8), 1 => Just(3u8), 1 => Just(4u8)],
        any::<u16>(),
        fe_any(),
        vecspec(),
        any::<u16>(),
        proptest::collection::vec(any::<u16>(), 0..5),
        proptest::collection::vec(fe_any(), 5),
        (1u32..=8, any::<u16>(), proptest::option::of(any::<u16>())),
    )
        .prop_map(
            |(log_n, tau_kind, tau_idx, tau, evals, evals_len, rows, pis, (log_d, deg, perturb))| {
                ClosedCase {
                    log_n,
                    tau_kind,
                    tau_idx,
                    tau,
                    evals,
                    evals_len,
                    rows,
                    pis,
                    log_d,
                    deg,
                    perturb,
                }
            },
        )
        .boxed()
}

fn check_closed(ctx: &Ctx, c: &ClosedCase) -> PResult {
    let n = 1usize << c.log_n;
    let w = naive::omega(c.log_n);
    let k_idx = pick(c.tau_idx, n);
    let tau = match c.tau_kind {
        0 => c.tau.0,
        1 => naive::pow(w, k_idx as u64),
        2 => naive::coset_gen() * naive::pow(w, k_idx as u64),
        3 => F::zero(),
        _ => F::one(),
    };
    let in_domain = naive::pow(tau, n as u64) == F::one();
    let cls = format!(
        "closed-forms tau={}",
        if in_domain { "in-domain" } else { "outside" }
    );
    ctx.eval(&cls);

    // Lagrange coefficients
    let lag = no_panic("lagrange-panic", || k::lagrange_coefficients(n, tau))?
        .map_err(|e| Fail::new("lagrange-err", format!("{e:?}")))?;
    let want = naive::lagrange_all(c.log_n, &tau);
    ensure!(
        lag == want,
        "lagrange-definition",
        "Lagrange coefficients differ from the product definition (n={n}, in_domain={in_domain})"
    );

    // vanishing polynomial at a point = prod (tau - w^i)
    let vh = k::vanishing_eval(n, &tau).map_err(|e| Fail::new("vanishing-err", format!("{e:?}")))?;
    let mut prod = F::one();
    let mut x = F::one();
    for _ in 0..n {
        prod *= tau - x;
        x *= w;
    }
    ensure!(vh == prod, "vanishing-definition", "Z_H(tau) != prod(tau - w^i), n={n}");

    // vanishing polynomial of degree m over the coset of a domain of size D
    let d = 1usize << c.log_d;
    let m = pick(c.deg, d) as u64; // m < D as the kernel requires
    let voc = no_panic("vanishing-coset-panic", || k::vanishing_over_coset(d, m))?
        .map_err(|e| Fail::new("vanishing-err", format!("{e:?}")))?;
    let wd = naive::omega(c.log_d);
    let g = naive::coset_gen();
    ensure!(voc.len() == d, "vanishing-coset-definition", "length");
    let mut lin = Vec::with_capacity(d);
    for i in 0..d {
        let pt = g * naive::pow(wd, i as u64);
        lin.push(pt);
        ensure!(
            voc[i] == naive::pow(pt, m) - F::one(),
            "vanishing-coset-definition",
            "X^{m}-1 over coset of size {d} wrong at {i}"
        );
    }
    // the matchers accept exactly the right lists
    let mut lin2 = lin.clone();
    let mut voc2 = voc.clone();
    let expect_ok = c.perturb.is_none();
    if let Some(p) = c.perturb {
        let i = pick(p, d);
        lin2[i] += F::one();
        voc2[i] += F::one();
    }
    let (ml, mv) = k::coset_matchers(d, m, &lin2, &voc2)
        .map_err(|e| Fail::new("vanishing-err", format!("{e:?}")))?;
    ensure!(
        ml == expect_ok && mv == expect_ok,
        "coset-matchers",
        "matchers returned ({ml},{mv}), expected {expect_ok} (d={d}, m={m})"
    );

    // barycentric evaluation = value of the interpolant
    let elen = pick(c.evals_len, n + 1);
    let evals = c.evals.expand(elen);
    let bar = no_panic("barycentric-panic", || k::barycentric_eval(n, &evals, &tau))?
        .map_err(|e| Fail::new("barycentric-err", format!("{e:?}")))?;
    let want_bar = naive::interp_eval(&evals, c.log_n, &tau);
    ensure!(
        bar == want_bar,
        if in_domain {
            "barycentric-inside-domain"
        } else {
            "barycentric-definition"
        },
        "barycentric evaluation differs from the interpolant's value (n={n}, len={elen}, in_domain={in_domain})"
    );

    // the verifier's fused L1 / PI evaluation
    let mut rows: Vec<usize> = c.rows.iter().map(|r| pick(*r, n)).collect();
    rows.sort();
    rows.dedup();
    let pis: Vec<F> = rows.iter().enumerate().map(|(i, _)| c.pis[i % c.pis.len()].0).collect();
    let fused = no_panic("fused-panic", || k::fused_lagrange_pi(n, &rows, &pis, &tau))?;
    let undefined = tau == F::one()
        || rows
            .iter()
            .zip(&pis)
            .any(|(r, p)| *p != F::zero() && naive::pow(w, *r as u64) == tau);
    match fused {
        Err(_) => {
            ensure!(
                undefined,
                "fused-spurious-error",
                "fused evaluation returned an error at a point where it is defined"
            );
            ctx.label("fused: rejected domain point");
        }
        Ok((l1, pi)) => {
            ensure!(
                !undefined,
                "fused-missing-error",
                "fused evaluation returned a value on a public-input row / row 0"
            );
            ensure!(l1 == want[0], "fused-l1", "L1 differs from its definition");
            let want_pi: F = rows
                .iter()
                .zip(&pis)
                .map(|(r, p)| want[*r] * p)
                .sum();
            ensure!(pi == want_pi, "fused-pi", "PI(tau) differs from sum pi_j L_j(tau)");
        }
    }
    if n >= 2 {
        ctx.nontrivial_json(c);
        ctx.sample(&cls, || json!({"log_n": c.log_n, "tau_kind": c.tau_kind, "rows": rows, "evals_len": elen}));
    }
    Ok(())
}

pub fn props() -> Vec<(Box<dyn PropDyn>, u32, u32)> {
    vec![
        (
            Box::new(Prop::new("fft", fft_case, check_fft)),
            12000,
            100000,
        ),
        (
            Box::new(Prop::new("ifft", fft_case, check_ifft)),
            8000,
            60000,
        ),
        (
            Box::new(Prop::new("pools", pool_case, check_pools)),
            96,
            800,
        ),
        (
            Box::new(Prop::new("poly", poly_case, check_poly)),
            20000,
            200000,
        ),
        (
            Box::new(Prop::new("batch_inv", inv_case, check_inv)),
            10000,
            100000,
        ),
        (
            Box::new(Prop::new("closed", closed_case, check_closed)),
            6000,
            60000,
        ),
    ]
}

pub fn describe(ctx: &Ctx) {
    ctx.rule("cases: generated (domain 2^0..2^13 quick / 2^14 thorough, length classes {0,1,n/2,n-1,n,n+1,2n,2n+1,3n,5n+3,random up to 6n}, vectors random/zero/trailing-zero/sparse/small with boundary overrides, pools global and 1..=17; polynomial op programs; inversion vectors; closed-form points inside/outside the domain); non-trivial = domain size >= 2 and a non-zero vector (fft/ifft), some polynomial of degree >= 1 (poly), >= 2 entries not all zero (batch inversion), n >= 2 (closed forms); distinct by hash of the full case");
    ctx.assume("oracles are O(n^2) textbook definitions written in the harness over dusk-bls12_381 field arithmetic (trusted)");
    ctx.assume("inverse transforms are only generated with length <= domain size (longer evaluation vectors have no mathematical meaning)");
    ctx.assume("the fused verifier evaluation may return an error exactly at tau = 1 or tau on a non-zero public-input row (documented behaviour)");
}
