//! C07 — circuit shape is independent of witness values; witness generation
//! is total (no panic on arbitrary field elements and malformed points).

use proptest::prelude::*;
use serde::{Deserialize, Serialize};
use serde_json::json;

use crate::fe::{fe_any, fe_random, Fe, F};
use crate::prog::{self, Op, Program, PtSpec};
use crate::runner::{no_panic, Ctx, Fail, PResult, Prop, PropDyn, Tier};
use crate::spec::Layout;

#[derive(Debug, Clone, Serialize, Deserialize)]
pub struct Case {
    pub ops: Vec<Op>,
    /// arbitrary witness inputs of the second run
    pub inputs: Vec<Fe>,
    pub points: Vec<PtSpec>,
}

fn pt_any() -> BoxedStrategy<PtSpec> {
    (0u8..6, fe_any(), 0u8..8, fe_any(), fe_any(), prop_oneof![1 => Just(Fe(F::zero())), 1 => Just(Fe(F::one())), 1 => fe_random()])
        .prop_map(|(kind, k, t, x, y, z)| PtSpec { kind, k, t, x, y, z })
        .boxed()
}

fn width_op() -> BoxedStrategy<Op> {
    // every const-generic width through the dispatch tables
    prop_oneof![
        (0u16..=256, fe_any()).prop_map(|(bits, v)| Op::RangeBits { bits, v }),
        (0u16..=160, fe_any()).prop_map(|(pairs, v)| Op::RangePairs { pairs, v }),
        (any::<bool>(), 0u8..=127, any::<u16>(), any::<u16>()).prop_map(|(xor, pairs, a, b)| Op::Logic { xor, pairs, a, b }),
        (0u8..=254, any::<u16>()).prop_map(|(n, a)| Op::Truncate { n, a }),
        (1u16..=256, fe_any()).prop_map(|(n, v)| Op::Decompose { n, v }),
    ]
    .boxed()
}

fn case_strategy(_t: Tier) -> BoxedStrategy<Case> {
    let op = prop_oneof![
        30 => prog::light_op(),
        8 => width_op(),
        2 => prog::heavy_op(),
    ];
    (
        proptest::collection::vec(op, 1..14),
        proptest::collection::vec(fe_any(), 1..12),
        proptest::collection::vec(pt_any(), 1..5),
    )
        .prop_map(|(ops, inputs, points)| Case { ops, inputs, points })
        .boxed()
}

fn run(ops: &[Op], inputs: Option<Vec<F>>, pts: Option<Vec<PtSpec>>) -> Result<Result<Layout, String>, Fail> {
    let mut p = Program::solved(ops.to_vec());
    p.mode.solve = false;
    p.inputs = inputs;
    p.inputs_pts = pts;
    let r = no_panic("witness-generation-panic", || prog::build(&p))?;
    Ok(match r {
        Ok((c, _)) => Ok(Layout::from_snapshot(&c.verif_snapshot())),
        Err(e) => Err(format!("{e:?}")),
    })
}

fn check(ctx: &Ctx, c: &Case) -> PResult {
    // run A: the program's own (well-formed) arguments
    let a = run(&c.ops, None, None).map_err(|f| Fail::new(sig_for(&f, &c.ops), f.msg))?;
    // run B: arbitrary field elements and malformed points in the same slots
    let inputs: Vec<F> = c.inputs.iter().map(|x| x.0).collect();
    let b = run(&c.ops, Some(inputs), Some(c.points.clone())).map_err(|f| Fail::new(sig_for(&f, &c.ops), f.msg))?;
    let cls = match (&a, &b) {
        (Ok(_), Ok(_)) => "both built",
        (Ok(_), Err(_)) => "arbitrary inputs refused with an error",
        (Err(_), Ok(_)) => "first refused, second built",
        (Err(_), Err(_)) => "both refused",
    };
    ctx.eval(cls);
    for o in &c.ops {
        ctx.label(&format!("component {}", o.name()));
    }
    if let (Ok(la), Ok(lb)) = (&a, &b) {
        if let Some(d) = la.first_diff(lb) {
            let culprit = culprit_op(c, la, lb);
            return Err(Fail::new(
                format!("shape-depends-on-witness:{culprit}"),
                format!("two runs of the same component calls with different witness values emitted different gates: {d}"),
            ));
        }
        ctx.nontrivial_json(c);
        ctx.sample(&format!("{cls}: ends with {}", c.ops.last().map(|o| o.name()).unwrap_or("")), || {
            json!({"ops": c.ops.iter().map(|o| o.name()).collect::<Vec<_>>(), "rows": la.rows.len(),
                   "arbitrary_inputs": c.inputs.iter().take(4).map(|x| crate::fe::fe_short(&x.0)).collect::<Vec<_>>()})
        });
    }
    if let (Ok(_), Err(e)) = (&a, &b) {
        ctx.label(&format!("error: {}", e.split(|ch: char| !ch.is_alphanumeric()).next().unwrap_or("")));
        ctx.nontrivial_json(c);
    }
    Ok(())
}

/// name of the first op after which the two layouts diverge
fn culprit_op(c: &Case, _a: &Layout, _b: &Layout) -> &'static str {
    for n in 1..=c.ops.len() {
        let inputs: Vec<F> = c.inputs.iter().map(|x| x.0).collect();
        let ra = run(&c.ops[..n], None, None);
        let rb = run(&c.ops[..n], Some(inputs), Some(c.points.clone()));
        if let (Ok(Ok(x)), Ok(Ok(y))) = (ra, rb) {
            if x != y {
                return c.ops[n - 1].name();
            }
        }
    }
    "unknown"
}

fn sig_for(f: &Fail, ops: &[Op]) -> String {
    // attribute a panic to the last component of the shortest panicking prefix
    let _ = ops;
    f.sig.clone()
}

/// every width of every width-parametrised component on boundary inputs
fn sweep(ctx: &Ctx) {
    let vals: Vec<F> = vec![F::zero(), F::one(), -F::one(), crate::fe::f_pow2(200), crate::fe::rj_f(), crate::fe::f_stream(ctx.seed, 1)[0]];
    let mut n = 0u64;
    let one = |op: Op, ctx: &Ctx| {
        for (i, v) in vals.iter().enumerate() {
            let c = Case {
                ops: vec![Op::Wit(Fe(F::from(3u64))), Op::Wit(Fe(F::from(5u64))), op.clone()],
                inputs: vec![Fe(*v), Fe(vals[(i + 1) % vals.len()]), Fe(*v)],
                points: vec![PtSpec::sub(F::one())],
            };
            if let Err(f) = check(ctx, &c) {
                ctx.violation("shape", &f, serde_json::to_value(&c).unwrap());
            }
        }
    };
    for w in 0u16..=256 {
        one(Op::RangeBits { bits: w, v: Fe(F::from(1u64)) }, ctx);
        n += 1;
    }
    for p in 0u16..=160 {
        one(Op::RangePairs { pairs: p, v: Fe(F::from(1u64)) }, ctx);
        n += 1;
    }
    for p in 0u8..=127 {
        one(Op::Logic { xor: true, pairs: p, a: 40000, b: 65535 }, ctx);
        one(Op::Logic { xor: false, pairs: p, a: 40000, b: 65535 }, ctx);
        n += 2;
    }
    for t in 0u8..=254 {
        one(Op::Truncate { n: t, a: 65535 }, ctx);
        n += 1;
    }
    for d in 1u16..=256 {
        one(Op::Decompose { n: d, v: Fe(F::from(1u64)) }, ctx);
        n += 1;
    }
    ctx.label_n("sweep: width-parametrised component instances", n);
}

pub fn props() -> Vec<(Box<dyn PropDyn>, u32, u32)> {
    vec![(Box::new(Prop::new("shape", case_strategy, check).shrink(600)), 20000, 300000)]
}

pub fn sweeps(ctx: &Ctx) {
    sweep(ctx);
}

pub fn describe(ctx: &Ctx) {
    ctx.rule("cases: sequences of 1..13 component calls with fixed constant parameters (every public component; every const-generic width through generated dispatch tables, all widths exhaustively in the sweep) executed twice: once with the program's own well-formed arguments, once with arbitrary field elements (0, 1, -1, 2^k, 2^k-1, 2^k+1, r_J, r_J+-1, small, random) in every witness slot and malformed points (torsion cosets, raw off-curve pairs, consistent Z != 1, Z = 0, inconsistent T1*T2) in every point slot. Built with debug assertions and overflow checks (checked profile). Oracle: both runs return the identical layout (selectors, wiring, public-input rows, count) or an error; never a panic. non-trivial = both runs built (layouts compared) or the second was refused with an error; distinct by case");
    ctx.assume("a panic that aborts the process (not unwinding) would kill the harness and surface as exit != 0 without a VIOLATION line");
}
