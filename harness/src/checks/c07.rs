//! C07 — circuit shape is independent of witness values; witness generation
//! is total (no panic on arbitrary field elements and malformed points).

use proptest::prelude::*;
use serde::{Deserialize, Serialize};
use serde_json::json;

use crate::fe::{fe_any, fe_random, Fe, F};
use crate::prog::{self, Op, Program, PtSpec};
use crate::runner::{no_panic, Ctx, Fail, PResult, Prop, PropDyn, Tier};
use crate::spec::Layout;

#[derive(Debug, Clone, Serialize, Deserialize)]
pub struct Case {
    pub ops: Vec<Op>,
    /// arbitrary witness inputs of the second run
    pub inputs: Vec<Fe>,
    pub points: Vec<PtSpec>,
}

fn pt_any() -> BoxedStrategy<PtSpec> {
    (0u8..6, fe_any(), 0u8..8, fe_any(), fe_any(), prop_oneof![1 => Just(Fe(F::zero())), 1 => Just(Fe(F::one())), 1 => fe_random()])
        .prop_map(|(kind, k, t, x, y, z)| PtSpec { kind, k, t, x, y, z })
        .boxed()
}

fn width_op() -> BoxedStrategy<Op> {
    // every const-generic width through the dispatch tables
    prop_oneof![
        (0u16..=256, fe_any()).prop_map(|(bits, v)| Op::RangeBits { bits, v }),
        (0u16..=160, fe_any()).prop_map(|(pairs, v)| Op::RangePairs { pairs, v }),
        (any::<bool>(), 0u8..=127, any::<u16>(), any::<u16>()).prop_map(|(xor, pairs, a, b)| Op::Logic { xor, pairs, a, b }),
        (0u8..=254, any::<u16>()).prop_map(|(n, a)| Op::Truncate { n, a }),
        (1u16..=256, fe_any()).prop_map(|(n, v)| Op::Decompose { n, v }),
    ]
    .boxed()
}

fn case_strategy(_t: Tier) -> BoxedStrategy<Case> {
    let op = prop_oneof![
        30 => prog::light_op(),
        8 => width_op(),
        2 => prog::heavy_op(),
    ];
    (
        proptest::collection::vec(op, 1..14),
        proptest::collection::vec(fe_any(), 1..12),
        proptest::collection::vec(pt_any(), 1..5),
    )
        .prop_map(|(ops, inputs, points)| Case { ops, inputs, points })
        .boxed()
}

fn run(ops: &[Op], inputs: Option<Vec<F>>, pts: Option<Vec<PtSpec>>) -> Result<Result<Layout, String>, Fail> {
    let mut p = Program::solved(ops.to_vec());
    p.mode.solve = false;
    p.inputs = inputs;
    p.inputs_pts = pts;
    let r = no_panic("witness-generation-panic", || prog::build(&p))?;
    Ok(match r {
        Ok((c, _)) => Ok(Layout::from_snapshot(&c.verif_snapshot())),
        Err(e) => Err(format!("{e:?}")),
    })
}

fn check(ctx: &Ctx, c: &Case) -> PResult {
    // run A: the program's own (well-formed) arguments
    let a = run(&c.ops, None, None).map_err(|f| Fail::new(sig_for(&f, &c.ops), f.msg))?;
    // run B: arbitrary field elements and malformed points in the same slots
    let inputs: Vec<F> = c.inputs.iter().map(|x| x.0).collect();
    let b = run(&c.ops, Some(inputs), Some(c.points.clone())).map_err(|f| Fail::new(sig_for(&f, &c.ops), f.msg))?;
    let cls = match (&a, &b) {
        (Ok(_), Ok(_)) => "both built",
        (Ok(_), Err(_)) => "arbitrary inputs refused with an error",
        (Err(_), Ok(_)) => "first refused, second built",
        (Err(_), Err(_)) => "both refused",
    };
    ctx.eval(cls);
    for o in &c.ops {
        ctx.label(&format!("component {}", o.name()));
    }
    if let (Ok(la), Ok(lb)) = (&a, &b) {
        if let Some(d) = la.first_diff(lb) {
            let culprit = culprit_op(c, la, lb);
            return Err(Fail::new(
                format!("shape-depends-on-witness:{culprit}"),
                format!("two runs of the same component calls with different witness values emitted different gates: {d}"),
            ));
        }
        ctx.nontrivial_json(c);
        ctx.sample(&format!("{cls}: ends with {}", c.ops.last().map(|o| o.name()).unwrap_or("")), || {
            json!({"ops": c.ops.iter().map(|o| o.name()).collect::<Vec<_>>(), "rows": la.rows.len(),
                   "arbitrary_inputs": c.inputs.iter().take(4).map(|x| crate::fe::fe_short(&x.0)).collect::<Vec<_>>()})
        });
    }
    if let (Ok(_), Err(e)) = (&a, &b) {
        ctx.label(&format!("error: {}", e.split(|ch: char| !ch.is_alphanumeric()).next().unwrap_or("")));
        ctx.nontrivial_json(c);
    }
    Ok(())
}

/// name of the first op after which the two layouts diverge
fn culprit_op(c: &Case, _a: &Layout, _b: &Layout) -> &'static str {
    for n in 1..=c.ops.len() {
        let inputs: Vec<F> = c.inputs.iter().map(|x| x.0).collect();
        let ra = run(&c.ops[..n], None, None);
        let rb = run(&c.ops[..n], Some(inputs), Some(c.points.clone()));
        if let (Ok(Ok(x)), Ok(Ok(y))) = (ra, rb) {
            if x != y {
                return c.ops[n - 1].name();
            }
        }
    }
    "unknown"
}

fn sig_for(f: &Fail, ops: &[Op]) -> String {
    // attribute a panic to the last component of the shortest panicking prefix
    let _ = ops;
    f.sig.clone()
}

/// every width of every width-parametrised component on boundary inputs
fn sweep(ctx: &Ctx) {
    let vals: Vec<F> = vec![F::zero(), F::one(), -F::one(), crate::fe::f_pow2(200), crate::fe::rj_f(), crate::fe::f_stream(ctx.seed, 1)[0]];
    let mut n = 0u64;
    let one = |op: Op, ctx: &Ctx| {
        for (i, v) in vals.iter().enumerate() {
            let c = Case {
                ops: vec![Op::Wit(Fe(F::from(3u64))), Op::Wit(Fe(F::from(5u64))), op.clone()],
                inputs: vec![Fe(*v), Fe(vals[(i + 1) % vals.len()]), Fe(*v)],
                points: vec![PtSpec::sub(F::one())],
            };
            if let Err(f) = check(ctx, &c) {
                ctx.violation("shape", &f, serde_json::to_value(&c).unwrap());
            }
        }
    };
    for w in 0u16..=256 {
        one(Op::RangeBits { bits: w, v: Fe(F::from(1u64)) }, ctx);
        n += 1;
    }
    for p in 0u16..=160 {
        one(Op::RangePairs { pairs: p, v: Fe(F::from(1u64)) }, ctx);
        n += 1;
    }
    for p in 0u8..=127 {
        one(Op::Logic { xor: true, pairs: p, a: 40000, b: 65535 }, ctx);
        one(Op::Logic { xor: false, pairs: p, a: 40000, b: 65535 }, ctx);
        n += 2;
    }
    for t in 0u8..=254 {
        one(Op::Truncate { n: t, a: 65535 }, ctx);
        n += 1;
    }
    for d in 1u16..=256 {
        one(Op::Decompose { n: d, v: Fe(F::from(1u64)) }, ctx);
        n += 1;
    }
    ctx.label_n("sweep: width-parametrised component instances", n);
}

/// Exceptional pairs of the addition law: two (off-curve) addends with
/// d*x1*x2*y1*y2 = +1 or -1, where a denominator of the law vanishes. Random
/// independent points never meet this relation, so the pair is constructed.
#[derive(Debug, Clone, Serialize, Deserialize)]
pub struct PoleCase {
    pub x1: Fe,
    pub y1: Fe,
    pub x2: Fe,
    pub positive: bool,
    /// 0 add, 1 sub, 2 add with the addends exchanged, 3 mul_point by a
    /// scalar whose double-and-add meets the pair, 4 select_point then add
    pub op: u8,
    /// hand the second addend over with this Z (consistent extended form)
    pub z: Fe,
}

fn pole_strategy(_t: Tier) -> BoxedStrategy<PoleCase> {
    (crate::fe::fe_nonzero(), crate::fe::fe_nonzero(), crate::fe::fe_nonzero(), any::<bool>(), 0u8..5, prop_oneof![2 => Just(Fe(F::one())), 1 => crate::fe::fe_nonzero()])
        .prop_map(|(x1, y1, x2, positive, op, z)| PoleCase { x1, y1, x2, positive, op, z })
        .boxed()
}

fn check_pole(ctx: &Ctx, c: &PoleCase) -> PResult {
    let d = dusk_jubjub::EDWARDS_D;
    let den = d * c.x1.0 * c.x2.0 * c.y1.0;
    let Some(inv) = Option::<F>::from(den.invert()) else { return Ok(()) };
    // sub negates the second addend's x: the pair that meets the pole there
    // has the opposite sign
    let mut sign = if c.positive { F::one() } else { -F::one() };
    if c.op % 5 == 1 {
        sign = -sign;
    }
    let y2 = sign * inv;
    let p1 = PtSpec { kind: 2, k: Fe(F::zero()), t: 0, x: c.x1, y: c.y1, z: Fe(F::one()) };
    let mut p2 = PtSpec { kind: 2, k: Fe(F::zero()), t: 0, x: c.x2, y: Fe(y2), z: Fe(F::one()) };
    let _ = &mut p2;
    let tp = 21846u16; // pick(., 3) = 1: first typed point after the identity
    let tq = 43691u16;
    let mut ops = vec![
        Op::PointWit(PtSpec::sub(F::from(3u64))),
        Op::TorsionFree(u16::MAX),
        Op::PointWit(PtSpec::sub(F::from(5u64))),
        Op::TorsionFree(u16::MAX),
    ];
    match c.op % 5 {
        0 => ops.push(Op::AddPoint(tp, tq)),
        1 => ops.push(Op::SubPoint(tp, tq)),
        2 => ops.push(Op::AddPoint(tq, tp)),
        3 => ops.push(Op::MulPoint { s: Fe(F::from(3u64)), p: tp }),
        _ => {
            ops.push(Op::Wit(Fe(F::one())));
            ops.push(Op::SelectPoint { bit: u16::MAX, p: 13108, q: 39322 });
            ops.push(Op::AddPoint(tp, tq));
        }
    }
    let cls = format!("pole pair d*x1*x2*y1*y2 = {} through {}", if c.positive { "+1" } else { "-1" }, ops.last().map(|o| o.name()).unwrap_or(""));
    ctx.eval(&cls);
    let a = run(&ops, None, None)?;
    let b = run(&ops, Some(vec![F::one(), F::from(3u64)]), Some(vec![p1, p2]))?;
    if let (Ok(la), Ok(lb)) = (&a, &b) {
        if let Some(dd) = la.first_diff(lb) {
            return Err(Fail::new(
                "shape-depends-on-witness:pole-pair",
                format!("an exceptional pair of the addition law changes the emitted gates: {dd}"),
            ));
        }
    }
    ctx.nontrivial_json(c);
    ctx.sample(&cls, || json!({"x1": crate::fe::fe_short(&c.x1.0), "y1": crate::fe::fe_short(&c.y1.0), "x2": crate::fe::fe_short(&c.x2.0), "built": b.is_ok()}));
    Ok(())
}

pub fn props() -> Vec<(Box<dyn PropDyn>, u32, u32)> {
    vec![
        (Box::new(Prop::new("shape", case_strategy, check).shrink(600)), 20000, 300000),
        (Box::new(Prop::new("poles", pole_strategy, check_pole).shrink(100)), 1500, 20000),
    ]
}

pub fn sweeps(ctx: &Ctx) {
    sweep(ctx);
}

pub fn describe(ctx: &Ctx) {
    ctx.rule("cases: sequences of 1..13 component calls with fixed constant parameters (every public component; every const-generic width through generated dispatch tables, all widths exhaustively in the sweep) executed twice: once with the program's own well-formed arguments, once with arbitrary field elements (0, 1, -1, 2^k, 2^k-1, 2^k+1, r_J, r_J+-1, small, random) in every witness slot and malformed points (torsion cosets, raw off-curve pairs, consistent Z != 1, Z = 0, inconsistent T1*T2) in every point slot. Built with debug assertions and overflow checks (checked profile). Plus constructed exceptional pairs of the addition law (two off-curve addends with d*x1*x2*y1*y2 = +1 / -1, which independent random points never meet) through add / sub / exchanged add / mul_point / select+add. Oracle: both runs return the identical layout (selectors, wiring, public-input rows, count) or an error; never a panic. non-trivial = both runs built (layouts compared) or the second was refused with an error; distinct by case");
    ctx.assume("a panic that aborts the process (not unwinding) would kill the harness and surface as exit != 0 without a VIOLATION line");
}
