//! C06 — zero-knowledge masking: every opened polynomial is freshly blinded
//! with the prescribed masks, each of the 14 masking scalars drawn exactly
//! once from the caller's RNG.
//!
//! Oracle: an independent reference prover (harness/src/refprover.rs) that
//! applies the prescribed masks a(X) + (b1 + b2 X) Z_H(X), ..., z(X) + (b9 +
//! b10 X + b11 X^2) Z_H(X) and the quotient re-randomisation, run on the same
//! witness table and the same 14 scalars, must produce the byte-identical
//! proof. Hence every commitment and every opening of the implementation's
//! proof equals "unmasked value + prescribed mask".

use std::sync::Arc;

use dusk_bytes::Serializable;
use dusk_plonk::prelude::PlonkVersion;
use proptest::prelude::*;
use serde::{Deserialize, Serialize};
use serde_json::json;

use crate::ensure;
use crate::fe::{fe_any, fe_random, Fe, F};
use crate::prog::{self, Op, Program, ProgramCircuit};
use crate::refprover::{self, Deviation};
use crate::refver::{self, RefProof, RefVerifier};
use crate::runner::{no_panic, Ctx, Fail, PResult, Prop, PropDyn, Tier};
use crate::spec::Layout;
use crate::sys::{self, Route, ScriptedRng};

#[derive(Debug, Clone, Serialize, Deserialize)]
pub struct Case {
    /// pad the circuit to 2^k - pad_delta constraints (larger domains take the
    /// parallel code paths of the prover)
    pub big: Option<(u32, u8)>,
    pub ops: Vec<Op>,
    pub blinders: Vec<Fe>,
    /// which single draw is changed for the metamorphic run
    pub vary: u8,
    pub vary_to: Fe,
    pub label: Vec<u8>,
    pub legacy: bool,
}

fn blinder() -> BoxedStrategy<Fe> {
    prop_oneof![10 => fe_random(), 2 => fe_any()].boxed()
}

fn case_strategy(t: Tier) -> BoxedStrategy<Case> {
    let medium = t.pick(4u32, 6u32);
    (
        proptest::option::weighted(0.08, (9u32..=t.pick(11u32, 12u32), 0u8..9)),
        prop_oneof![12 => prog::ops_strategy(12, medium, 0), 1 => prog::ops_strategy(4, 1, 4)],
        proptest::collection::vec(blinder(), 14),
        0u8..14,
        fe_random(),
        proptest::collection::vec(any::<u8>(), 0..6),
        proptest::bool::weighted(0.15),
    )
        .prop_map(|(big, ops, blinders, vary, vary_to, label, legacy)| Case {
            big,
            ops,
            blinders,
            vary,
            vary_to,
            label,
            legacy,
        })
        .boxed()
}

fn to14(b: &[Fe]) -> [F; 14] {
    let mut a = [F::zero(); 14];
    for (i, x) in b.iter().take(14).enumerate() {
        a[i] = x.0;
    }
    a
}

fn check(ctx: &Ctx, c: &Case) -> PResult {
    let program = match c.big {
        Some((k, d)) => crate::checks::c01::padded_program(&c.ops, Some((k, -(d as i8))), 60000)?.0,
        None => Arc::new(Program::solved(c.ops.clone())),
    };
    let (composer, _) = prog::build(&program)
        .map_err(|e| Fail::new("honest-build-error", format!("{e:?}")))?;
    let snap = composer.verif_snapshot();
    let layout = Layout::from_snapshot(&snap);
    let n = layout.size();
    let max_n = ctx.tier.pick(2048, 4096);
    if n > max_n {
        ctx.excluded("circuit too large for the reference prover budget");
        return Ok(());
    }
    let cap = sys::min_capacity(layout.rows.len());
    let pp = sys::pp(cap);
    let srs = refprover::srs_for(cap, &pp, n + 7);
    let (prover, verifier) = sys::compile(&pp, &c.label, &program, Route::Instance)
        .map_err(|e| Fail::new("compile-error", format!("{e:?}")))?;
    let version = if c.legacy { PlonkVersion::V2 } else { PlonkVersion::V3 };
    let rversion = refver::version_of(version);
    let cls = format!("n={} {}", n, if c.legacy { "V2" } else { "V3" });
    ctx.eval(&cls);

    // independent recomputation of the verifier key
    let keys = refprover::ref_keys(&layout, &c.label, &srs)
        .ok_or_else(|| Fail::new("refprover-commit", "selector polynomial exceeds the key"))?;
    let rv_impl = RefVerifier::parse(&verifier.to_bytes()).map_err(|e| Fail::new("refver-parse", e))?;
    ensure!(
        rv_impl.comm == keys.rv.comm && rv_impl.vk_n == keys.rv.vk_n && rv_impl.pi_rows == keys.rv.pi_rows,
        "verifier-key-differs-from-reference",
        "the compiled verifier key is not the commitment to the layout's selector/permutation polynomials"
    );

    let blinders = to14(&c.blinders);
    let degenerate = blinders.iter().any(|b| *b == F::zero())
        || (0..14).any(|i| (0..i).any(|j| blinders[i] == blinders[j]));
    let run = |bl: &[F; 14]| -> Result<(Vec<u8>, Vec<usize>, bool, usize), Fail> {
        let mut rng = ScriptedRng::new(refprover::stream_for(bl));
        let r = no_panic("prove-panic", || {
            prover.prove_with_version(&mut rng, &ProgramCircuit::new(program.clone()), version)
        })?;
        let (proof, _) = r.map_err(|e| Fail::new("prove-error", format!("{e:?}")))?;
        Ok((proof.to_bytes().to_vec(), rng.calls.clone(), rng.exhausted, rng.pos))
    };
    let (bytes, calls, exhausted, pos) = match run(&blinders) {
        Ok(x) => x,
        Err(f) if degenerate && f.sig != "prove-panic" => {
            ctx.label("degenerate blinders: prover refused");
            return Ok(());
        }
        Err(f) => return Err(f),
    };
    // draw accounting: exactly 14 draws of 64 bytes, nothing more
    ensure!(
        calls.len() == 14 && calls.iter().all(|l| *l == 64) && !exhausted && pos == 14 * 64,
        "rng-draw-accounting",
        "prover drew {:?} (total {} bytes, exhausted {}) instead of 14 x 64 bytes",
        calls, pos, exhausted
    );
    let pi: Vec<(usize, F)> = snap.public_inputs.clone();
    let out = refprover::prove(&keys, &layout, &srs, &snap.witnesses, &pi, &blinders, rversion, &Deviation::default());
    let out = match out {
        Ok(o) => o,
        Err(e) if degenerate => {
            ctx.label(&format!("degenerate blinders: reference prover stopped ({e})"));
            return Ok(());
        }
        Err(e) => return Err(Fail::new("reference-prover-failed", e)),
    };
    ensure!(out.r_at_z == F::zero(), "reference-prover-self-check", "linearisation identity does not hold for the reference prover's own run");
    let ref_bytes = out.proof.to_bytes();
    if ref_bytes != bytes {
        let ip = RefProof::parse(&bytes).map_err(|e| Fail::new("refver-parse", e))?;
        let mut diffs = Vec::new();
        let cn = ["a", "b", "c", "d", "z", "t_low", "t_mid", "t_high", "t_fourth", "w_z", "w_zw"];
        let en = ["a", "b", "c", "d", "a_w", "b_w", "d_w", "q_arith", "q_c", "q_l", "q_r", "s1", "s2", "s3", "z_w"];
        for i in 0..11 {
            if ip.comm[i] != out.proof.comm[i] {
                diffs.push(format!("[{}]", cn[i]));
            }
        }
        for i in 0..15 {
            if ip.eval[i] != out.proof.eval[i] {
                diffs.push(format!("{}_eval", en[i]));
            }
        }
        return Err(Fail::new(
            format!("masking-differs-from-prescribed:{}", diffs.first().cloned().unwrap_or_default()),
            format!("with the same 14 masking scalars the proof differs from the prescribed masking in: {}", diffs.join(", ")),
        ));
    }
    // the reference verifier accepts it
    ensure!(
        refver::verify(&keys.rv, &out.proof, &pi.iter().map(|p| p.1).collect::<Vec<_>>(), rversion).accept,
        "reference-verifier-rejects-honest",
        "reference verifier rejects the (identical) proof"
    );

    // metamorphic: changing ONE draw changes the proof; fresh randomness
    // shares no commitment and no opening
    let mut b2 = blinders;
    let k = (c.vary % 14) as usize;
    if c.vary_to.0 != b2[k] {
        b2[k] = c.vary_to.0;
        let (bytes2, ..) = run(&b2)?;
        ensure!(bytes2 != bytes, "blinder-unused", "changing masking scalar #{k} does not change the proof");
        ctx.label(&format!("one draw varied: #{k}"));
    }
    if !degenerate {
        let fresh = crate::fe::f_stream(0xfeed ^ c.vary as u64, 14);
        let mut b3 = [F::zero(); 14];
        b3.copy_from_slice(&fresh);
        let (bytes3, ..) = run(&b3)?;
        let p1 = RefProof::parse(&bytes).map_err(|e| Fail::new("refver-parse", e))?;
        let p3 = RefProof::parse(&bytes3).map_err(|e| Fail::new("refver-parse", e))?;
        for i in 0..11 {
            ensure!(p1.comm[i] != p3.comm[i], "commitment-shared-across-randomness", "commitment {i} is identical under fresh randomness");
        }
        // selector and sigma evaluations are openings of public polynomials at
        // a fresh challenge; all 15 must differ
        // the 8 openings of masked polynomials must all differ; the 7
        // openings of PUBLIC polynomials (selectors, sigmas) differ whenever
        // that polynomial is not constant (a constant public polynomial, e.g.
        // q_arith = 1 on a full all-arithmetic domain, opens to the same value
        // at every challenge and reveals nothing)
        let public_poly: [Option<&Vec<F>>; 15] = [
            None, None, None, None, None, None, None,
            Some(&keys.q[crate::spec::Q_ARITH]),
            Some(&keys.q[crate::spec::Q_C]),
            Some(&keys.q[crate::spec::Q_L]),
            Some(&keys.q[crate::spec::Q_R]),
            Some(&keys.sigma[0]),
            Some(&keys.sigma[1]),
            Some(&keys.sigma[2]),
            None,
        ];
        for i in 0..15 {
            let constant_public = public_poly[i].map(|p| p.len() <= 1).unwrap_or(false);
            if constant_public {
                ctx.excluded("opening of a constant public polynomial");
                continue;
            }
            ensure!(p1.eval[i] != p3.eval[i], "evaluation-shared-across-randomness", "evaluation {i} is identical under fresh randomness");
        }
        ctx.nontrivial_json(&(layout.digest().to_vec(), &c.blinders, c.legacy));
        ctx.sample(&cls, || json!({"constraints": layout.rows.len(), "ops": c.ops.iter().map(|o| o.name()).collect::<Vec<_>>(), "draws": calls}));
    } else {
        ctx.label("degenerate blinders (zero or repeated): structure checked, disjointness skipped");
    }
    Ok(())
}

pub fn props() -> Vec<(Box<dyn PropDyn>, u32, u32)> {
    vec![(Box::new(Prop::new("masking", case_strategy, check).shrink(80)), 800, 8000)]
}

pub fn describe(ctx: &Ctx) {
    ctx.rule("cases: generated circuits (padded domain up to 2^11 quick / 2^12 thorough, about 8% of the cases padded to 2^9..2^11 rows so the prover's parallel code paths are taken) x witnesses x scripted RNG streams of exactly 14 x 64 bytes whose individual draws are chosen freely (random, 0, 1, boundary values, repeated). Oracle: an independent O(n^2) reference prover applying the prescribed masks to the same witness table with the same 14 scalars must yield the byte-identical proof (so every commitment and opening = unmasked + prescribed mask); draw accounting (14 fill_bytes calls of 64 bytes, none beyond); the compiled verifier key equals the reference commitment to the layout; changing one draw changes the proof; fresh randomness shares no commitment and no evaluation. non-trivial = all 14 draws non-zero and pairwise distinct; distinct by (layout digest, stream, version)");
    ctx.assume("structural masking only: statistical indistinguishability is not claimed (DESIGN.md section 8)");
    ctx.assume("reference prover: harness/src/refprover.rs (reference transcript; naive DFT and own MSM up to domain 2^7; above that the crate's FFT kernels - decided separately by C19 against the O(n^2) definitions - and the curve library's Pippenger MSM)");
}
