//! C08 — arithmetic, equality, boolean and selection components are exact.

use proptest::prelude::*;
use serde::{Deserialize, Serialize};
use serde_json::json;

use crate::ensure;
use crate::fe::{fe_any, fe_short, pick, Fe, F};
use crate::gadget::{self, Gad};
use crate::prog::{coeff, pi_strategy, Op, Pi, Program};
use crate::runner::{no_panic, Ctx, Fail, PResult, Prop, PropDyn, Tier};

#[derive(Debug, Clone, Serialize, Deserialize)]
pub struct Case {
    /// 0 gate, 1 evaluated_output, 2 gate_add, 3 gate_mul, 4 assert_equal,
    /// 5 assert_equal_constant, 6 append_constant, 7 append_public,
    /// 8 boolean, 9 select, 10 select_one, 11 select_zero
    pub comp: u8,
    pub q: [Fe; 6],
    pub vals: [Fe; 4],
    /// handle choice per wire: 0..4 -> own witness k, 4 ZERO, 5 ONE, 6 same as wire a
    pub wiring: [u8; 4],
    pub pi: Pi,
    pub satisfy: bool,
    /// which touched handle to perturb (index into the 4 own witnesses or 4 =
    /// the returned witness) and the new value
    pub perturb: (u8, Fe),
    pub prove: bool,
    pub seed: u64,
}

fn case_strategy(_t: Tier) -> BoxedStrategy<Case> {
    (
        0u8..12,
        proptest::array::uniform6(coeff()),
        proptest::array::uniform4(fe_any()),
        proptest::array::uniform4(prop_oneof![6 => 0u8..4, 1 => Just(4u8), 1 => Just(5u8), 2 => Just(6u8)]),
        pi_strategy(),
        any::<bool>(),
        (0u8..5, fe_any()),
        proptest::bool::weighted(0.12),
        any::<u64>(),
    )
        .prop_map(|(comp, q, vals, wiring, pi, satisfy, perturb, prove, seed)| Case {
            comp,
            q,
            vals,
            wiring,
            pi,
            satisfy,
            perturb,
            prove,
            seed,
        })
        .boxed()
}

const NAMES: [&str; 12] = [
    "append_gate",
    "append_evaluated_output",
    "gate_add",
    "gate_mul",
    "assert_equal",
    "assert_equal_constant",
    "append_constant",
    "append_public",
    "component_boolean",
    "component_select",
    "component_select_one",
    "component_select_zero",
];

/// handle index (in the trace) of wire k: own witnesses are handles 2..6
fn handle_of(w: u8, first: u8) -> usize {
    match w {
        0..=3 => 2 + w as usize,
        4 => 0,
        5 => 1,
        _ => handle_of(first, 0),
    }
}

fn pick_for(h: usize, total: usize) -> u16 {
    (((h as u64) << 16).div_ceil(total as u64)) as u16
}

fn check(ctx: &Ctx, c: &Case) -> PResult {
    let comp = c.comp % 12;
    let total = 6usize; // ZERO, ONE, four own witnesses
    let first = if c.wiring[0] == 6 { 0 } else { c.wiring[0] };
    let h: [usize; 4] = [
        handle_of(first, 0),
        handle_of(c.wiring[1], first),
        handle_of(c.wiring[2], first),
        handle_of(c.wiring[3], first),
    ];
    let hv = |i: usize, vals: &[F; 4]| -> F {
        match i {
            0 => F::zero(),
            1 => F::one(),
            k => vals[k - 2],
        }
    };
    let mut vals: [F; 4] = [c.vals[0].0, c.vals[1].0, c.vals[2].0, c.vals[3].0];
    if comp == 8 && c.satisfy {
        vals[3] = F::from((c.seed % 2) as u64);
    }
    // assert_equal(handle, handle - 1): the last own witness against the one
    // before it, the first own witness against ONE, ONE against ZERO, or the
    // second own witness against the first
    let eq_h: usize = [5usize, 2, 5, 3, 2, 1][(c.wiring[0] as usize + c.wiring[1] as usize) % 6];
    if comp == 4 && c.satisfy {
        match eq_h {
            5 => vals[2] = vals[3],
            3 => vals[1] = vals[0],
            2 => vals[0] = F::one(),
            _ => {}
        }
    }
    let q: Vec<F> = c.q.iter().map(|x| x.0).collect();
    let (a, b, cc, d) = (hv(h[0], &vals), hv(h[1], &vals), hv(h[2], &vals), hv(h[3], &vals));
    let piv = c.pi.val();
    let w16 = |i: usize| pick_for(h[i], total);
    let mut ops: Vec<Op> = vals.iter().map(|v| Op::Wit(Fe(*v))).collect();
    // documented relation as (selectors q_m,q_l,q_r,q_o,q_f,q_c, wires a,b,c,d, pi)
    // for the single row the component appends last
    let mut inputs: Option<Vec<F>> = None;
    let comp_op = match comp {
        0 => {
            let inner = q[0] * a * b + q[1] * a + q[2] * b + q[3] * cc + q[4] * d;
            let qc = if c.satisfy { -inner - piv } else { q[5] };
            Op::Gate {
                q: [Fe(q[0]), Fe(q[1]), Fe(q[2]), Fe(q[3]), Fe(q[4])],
                qc: Fe(qc),
                w: [w16(0), w16(1), w16(2), w16(3)],
                pi: c.pi.clone(),
            }
        }
        1 => Op::EvalOut {
            q: [Fe(q[0]), Fe(q[1]), Fe(q[2]), Fe(q[4]), Fe(q[3])],
            qc: Fe(if q[3] == F::zero() && c.satisfy {
                -(q[0] * a * b + q[1] * a + q[2] * b + q[4] * d + piv)
            } else {
                q[5]
            }),
            w: [w16(0), w16(1), w16(3)],
            pi: c.pi.clone(),
        },
        2 => Op::GateAdd { ql: Fe(q[1]), qr: Fe(q[2]), qf: Fe(q[4]), qc: Fe(q[5]), w: [w16(0), w16(1), w16(3)], pi: c.pi.clone() },
        3 => Op::GateMul { qm: Fe(q[0]), qf: Fe(q[4]), qc: Fe(q[5]), w: [w16(0), w16(1), w16(3)], pi: c.pi.clone() },
        // non-solve assert_equal compares the handle with the previous one:
        // last own witness (handle 5) against handle 4
        4 => Op::AssertEq(pick_for(eq_h, total)),
        5 => Op::AssertEqConst(pick_for(5, total), c.pi.clone()),
        6 => Op::Const(Fe(vals[0])),
        7 => Op::Public(Fe(vals[0])),
        8 => {
            inputs = Some(vec![vals[0], vals[1], vals[2], vals[3], vals[3]]);
            Op::Boolean(false)
        }
        9 => Op::Select { bit: w16(0), a: w16(1), b: w16(2) },
        10 => Op::SelectOne { bit: w16(0), v: w16(1) },
        _ => Op::SelectZero { bit: w16(0), v: w16(1) },
    };
    ops.push(comp_op);
    let mut program = Program::solved(ops);
    program.mode.solve = false;
    program.inputs = inputs.clone();
    // Boolean in non-solve mode takes inp[(wit_no + oi) % len]; make every
    // entry beyond the four witnesses equal to the tested value
    if comp == 8 {
        program.inputs = Some(vec![vals[0], vals[1], vals[2], vals[3], vals[3], vals[3], vals[3], vals[3], vals[3]]);
    }
    let g = no_panic("component-build-panic", || {
        let p = std::sync::Arc::new(program.clone());
        let (cmp, trace) = crate::prog::build(&p)?;
        let snap = cmp.verif_snapshot();
        let layout = crate::spec::Layout::from_snapshot(&snap);
        let mut pi_dense = vec![F::zero(); layout.size()];
        for (r, v) in &snap.public_inputs {
            pi_dense[*r] = *v;
        }
        Ok::<Gad, dusk_plonk::prelude::Error>(Gad { program: p, layout, wit: snap.witnesses, pi_dense, trace })
    })?
    .map_err(|e| Fail::new("component-build-error", format!("{e:?}")))?;
    ctx.eval(&format!("{} {}", NAMES[comp as usize], if c.wiring.iter().any(|w| *w == 6) || c.wiring[0] == c.wiring[1] { "shared-wires" } else { "distinct-wires" }));

    // value model and API shape
    if let Some((_, m)) = g_value_mismatch(&g) {
        return Err(Fail::new(format!("value-model:{}", NAMES[comp as usize]), m));
    }
    ensure!(g.trace.api_mismatch.is_empty(), "api-shape", "{:?}", g.trace.api_mismatch);

    // documented relation of the row the component appended
    let returned_h = g.trace.wits.len() - 1;
    let has_ret = g.trace.wits.len() > 6;
    let ret_v = g.trace.model[returned_h];
    // the boolean component allocates its own witness: its value is vals[3]
    let relation = |vals: &[F; 4], ret: F| -> Option<bool> {
        let (a, b, cc, d) = (hv(h[0], vals), hv(h[1], vals), hv(h[2], vals), hv(h[3], vals));
        Some(match comp {
            0 => {
                let qc = match &g.program.ops[4] {
                    Op::Gate { qc, .. } => qc.0,
                    _ => unreachable!(),
                };
                q[0] * a * b + q[1] * a + q[2] * b + q[3] * cc + q[4] * d + qc + piv == F::zero()
            }
            1 => {
                let qc = match &g.program.ops[4] {
                    Op::EvalOut { qc, .. } => qc.0,
                    _ => unreachable!(),
                };
                let base = q[0] * a * b + q[1] * a + q[2] * b + q[4] * d + qc + piv;
                if q[3] == F::zero() { base == F::zero() } else { base + q[3] * ret == F::zero() }
            }
            2 => q[1] * a + q[2] * b + q[4] * d + q[5] + piv - ret == F::zero(),
            3 => q[0] * a * b + q[4] * d + q[5] + piv - ret == F::zero(),
            4 => hv(eq_h, vals) == hv(eq_h - 1, vals),
            5 => vals[3] == F::from(7u64) + piv,
            6 => ret == vals[0],
            7 => ret == vals[0],
            8 => ret == F::zero() || ret == F::one(),
            10 => a * b - a - ret + F::one() == F::zero(),
            11 => a * b - ret == F::zero(),
            _ => return None,
        })
    };
    let honest_sat = g.honest_unsat().is_empty();
    if let Some(want) = relation(&vals, ret_v) {
        ensure!(
            honest_sat == want,
            if want { "relation-holds-but-unsatisfiable" } else { "relation-fails-but-satisfiable" },
            "{}: documented relation {} but the circuit is {} ({:?})",
            NAMES[comp as usize],
            if want { "holds" } else { "fails" },
            if honest_sat { "satisfiable" } else { "unsatisfiable" },
            g.honest_unsat().first()
        );
    } else {
        ensure!(honest_sat, "select-unsatisfiable", "component_select is not satisfiable: {:?}", g.honest_unsat().first());
    }
    if c.prove {
        gadget::cross_check(&g, &g.wit, c.seed, NAMES[comp as usize])?;
        ctx.label("cross-checked with the real prover");
    }
    // model-free adversary: the returned witness decided by the prover (another
    // value), inputs kept, internal wires re-solved row by row
    if has_ret && honest_sat && q_out_nonzero(comp, &q) && matches!(comp, 1 | 2 | 3 | 9 | 10 | 11) {
        let ret_w = g.handle_wit(returned_h);
        let mut pins: Vec<(usize, F)> = (2..6).map(|hh| (g.handle_wit(hh), g.wit[g.handle_wit(hh)])).collect();
        for forged in [ret_v + F::one(), c.perturb.1 .0, F::zero()] {
            if forged == ret_v || pins.iter().any(|p| p.0 == ret_w) {
                continue;
            }
            pins.push((ret_w, forged));
            ctx.add_evals(1);
            ctx.label("adversary: propagation from a forged returned witness");
            let hit = gadget::propagation_attack(&g, &pins, c.seed, &format!("{}: returned witness forced to {}", NAMES[comp as usize], fe_short(&forged)), |_| true)?;
            pins.pop();
            if let Some(msg) = hit {
                return Err(Fail::new("returned-witness-not-unique", msg));
            }
        }
    }
    // perturb one touched witness on the unchanged layout
    let (pk, pv) = (c.perturb.0 % 5, c.perturb.1 .0);
    let mut vals2 = vals;
    let mut ret2 = ret_v;
    let target_h = if pk == 4 {
        if !has_ret {
            ctx.nontrivial_json(c);
            return Ok(());
        }
        ret2 = pv;
        returned_h
    } else {
        vals2[pk as usize] = pv;
        2 + pk as usize
    };
    // comps 6,7,8 keep their value in the returned witness only
    let asg = g.with(&[(g.handle_wit(target_h), pv)]);
    let sat2 = g.eval(&asg).is_empty();
    ctx.add_evals(1);
    ctx.label(if pk == 4 { "perturb returned witness" } else { "perturb input witness" });
    if comp == 9 {
        if pk == 4 && pv != ret_v {
            ensure!(!sat2, "returned-witness-not-unique", "component_select: returned witness can be changed to {}", fe_short(&pv));
        }
    } else if let Some(want) = relation(&vals2, ret2) {
        // for 6,7,8 the relation is on the returned witness itself
        let applicable = match comp {
            6 | 7 | 8 => pk == 4,
            4 | 5 => pk < 4,
            _ => true,
        };
        if applicable {
            ensure!(
                sat2 == want,
                if want { "relation-holds-but-unsatisfiable" } else { "relation-fails-but-satisfiable" },
                "{} after setting {} to {}: documented relation {} but the assignment is {}",
                NAMES[comp as usize],
                if pk == 4 { "the returned witness".to_string() } else { format!("input {pk}") },
                fe_short(&pv),
                if want { "holds" } else { "fails" },
                if sat2 { "accepted" } else { "rejected" }
            );
            if pk == 4 && pv != ret_v && matches!(comp, 1 | 2 | 3 | 10 | 11) && q_out_nonzero(comp, &q) {
                ensure!(!sat2, "returned-witness-not-unique", "{}: returned witness can be changed", NAMES[comp as usize]);
            }
        }
    }
    ctx.nontrivial_json(c);
    ctx.sample(NAMES[comp as usize], || json!({"component": NAMES[comp as usize], "wiring": c.wiring, "satisfiable": honest_sat}));
    Ok(())
}

fn q_out_nonzero(comp: u8, q: &[F]) -> bool {
    comp != 1 || q[3] != F::zero()
}

fn g_value_mismatch(g: &Gad) -> Option<(usize, String)> {
    for i in 0..g.trace.wits.len() {
        let w = g.trace.wits[i].index();
        if g.wit[w] != g.trace.model[i] {
            return Some((i, format!("handle {i}: composer {} model {}", fe_short(&g.wit[w]), fe_short(&g.trace.model[i]))));
        }
    }
    None
}

pub fn props() -> Vec<(Box<dyn PropDyn>, u32, u32)> {
    let _ = pick;
    vec![(Box::new(Prop::new("exact", case_strategy, check).shrink(400)), 30000, 400000)]
}

pub fn describe(ctx: &Ctx) {
    ctx.rule("cases: component in {append_gate, append_evaluated_output, gate_add, gate_mul, assert_equal, assert_equal_constant, append_constant, append_public, component_boolean, component_select, component_select_one, component_select_zero} x coefficient tuples over {0, +-1, +-2, random} (q_o zero and invertible) x wirings (distinct, ZERO/ONE, all wires shared; assert_equal also against the built-in ONE and ZERO witnesses) x with/without (zero/non-zero) public input x witness values with boundary classes; constant term either solving the relation or arbitrary; then one touched witness (input or returned) set to another value on the unchanged layout; and the returned witness forced to another value with every internal wire re-solved row by row (propagation adversary). Oracle: the documented relation evaluated in the harness <=> reference-evaluator satisfiability; returned witnesses equal the documented value and cannot be changed alone. non-trivial = every case; distinct by case");
}
