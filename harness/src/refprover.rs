//! Reference prover: the proving algorithm of the protocol written from its
//! description with textbook O(n^2) polynomial arithmetic and an own MSM over
//! the public SRS bytes. Used (a) as the oracle for the masking structure
//! (same blinders => byte-identical proof), (b) to recompute the verifier
//! key independently, (c) as a malicious prover with controlled deviations.

use std::collections::HashMap;
use std::sync::{Arc, Mutex, OnceLock};

use dusk_bls12_381::{G1Affine, G1Projective, G2Affine};
use dusk_bytes::DeserializableSlice;
use dusk_plonk::prelude::PublicParameters;

use crate::fe::F;
use crate::naive::{self, horner, poly_add, poly_mul, poly_scale, poly_sub, trim};
use crate::refver::{
    self, Challenges, RefProof, RefVerifier, Version, K1, K2, K3,
};
use crate::spec::{self, Layout, RowVals};

#[derive(Clone)]
pub struct Srs {
    pub g: G1Affine,
    pub h: G2Affine,
    pub x_h: G2Affine,
    pub powers: Vec<G1Affine>,
}

/// Parse (a prefix of) `PublicParameters::to_var_bytes()`.
pub fn parse_srs(bytes: &[u8], max_powers: usize) -> Result<Srs, String> {
    if bytes.len() < 240 {
        return Err("short".into());
    }
    let g = G1Affine::from_slice(&bytes[..48]).map_err(|e| format!("{e:?}"))?;
    let h = G2Affine::from_slice(&bytes[48..144]).map_err(|e| format!("{e:?}"))?;
    let x_h = G2Affine::from_slice(&bytes[144..240]).map_err(|e| format!("{e:?}"))?;
    let mut powers = Vec::new();
    for ch in bytes[240..].chunks(48).take(max_powers) {
        powers.push(G1Affine::from_slice(ch).map_err(|e| format!("{e:?}"))?);
    }
    Ok(Srs { g, h, x_h, powers })
}

pub fn srs_for(capacity: usize, pp: &PublicParameters, max_powers: usize) -> Arc<Srs> {
    static CACHE: OnceLock<Mutex<HashMap<(usize, usize), Arc<Srs>>>> = OnceLock::new();
    let m = CACHE.get_or_init(|| Mutex::new(HashMap::new()));
    if let Some(s) = m.lock().unwrap().get(&(capacity, max_powers)) {
        return s.clone();
    }
    let s = Arc::new(parse_srs(&pp.to_var_bytes(), max_powers).expect("srs parses"));
    m.lock().unwrap().insert((capacity, max_powers), s.clone());
    s
}

pub fn commit(srs: &Srs, coeffs: &[F]) -> Option<G1Affine> {
    let c = trim(coeffs.to_vec());
    if c.len() > srs.powers.len() {
        return None;
    }
    if c.len() > 200 {
        // Pippenger MSM of the curve library (not the crate under test)
        let acc = dusk_bls12_381::multiscalar_mul::msm_variable_base(&srs.powers[..c.len()], &c);
        return Some(G1Affine::from(acc));
    }
    let mut acc = G1Projective::identity();
    for (p, s) in srs.powers.iter().zip(&c) {
        if *s != F::zero() {
            acc += G1Projective::from(*p) * *s;
        }
    }
    Some(G1Affine::from(acc))
}

/// Everything compilation derives from a layout, computed independently.
#[derive(Clone)]
pub struct RefKeys {
    pub n: usize,
    pub log_n: u32,
    pub constraints: usize,
    /// selector polynomials in the order of spec::Q_* (11)
    pub q: Vec<Vec<F>>,
    /// sigma evaluations (on the domain) and polynomials
    pub sigma_evals: [Vec<F>; 4],
    pub sigma: [Vec<F>; 4],
    pub rv: RefVerifier,
}

/// copy-constraint permutation as the protocol defines it: positions wired
/// to the same witness form one cycle in order of (row, column)
pub fn sigma_evals(layout: &Layout, n: usize, log_n: u32) -> [Vec<F>; 4] {
    let w = naive::omega(log_n);
    let roots: Vec<F> = {
        let mut v = Vec::with_capacity(n);
        let mut x = F::one();
        for _ in 0..n {
            v.push(x);
            x *= w;
        }
        v
    };
    let ks = [F::one(), F::from(K1), F::from(K2), F::from(K3)];
    // identity
    let mut s: [Vec<F>; 4] = [
        roots.iter().map(|r| ks[0] * r).collect(),
        roots.iter().map(|r| ks[1] * r).collect(),
        roots.iter().map(|r| ks[2] * r).collect(),
        roots.iter().map(|r| ks[3] * r).collect(),
    ];
    let mut positions: HashMap<usize, Vec<(usize, usize)>> = HashMap::new();
    for (i, r) in layout.rows.iter().enumerate() {
        for col in 0..4 {
            positions.entry(r.w[col]).or_default().push((col, i));
        }
    }
    for (_, pos) in positions {
        for k in 0..pos.len() {
            let (col, row) = pos[k];
            let (ncol, nrow) = pos[(k + 1) % pos.len()];
            s[col][row] = ks[ncol] * roots[nrow];
        }
    }
    s
}

pub fn ref_keys(layout: &Layout, label: &[u8], srs: &Srs) -> Option<RefKeys> {
    let constraints = layout.rows.len();
    let n = constraints.next_power_of_two();
    let log_n = n.trailing_zeros();
    let mut q = Vec::with_capacity(11);
    for k in 0..11 {
        let col: Vec<F> = layout.rows.iter().map(|r| r.sel[k]).collect();
        q.push(trim(interp(&col, log_n)));
    }
    let se = sigma_evals(layout, n, log_n);
    let sigma: [Vec<F>; 4] = [
        trim(interp(&se[0], log_n)),
        trim(interp(&se[1], log_n)),
        trim(interp(&se[2], log_n)),
        trim(interp(&se[3], log_n)),
    ];
    // verifier-key byte order: q_m,q_l,q_r,q_o,q_f,q_c,q_arith,q_logic,q_range,q_fixed,q_var,s1..s4
    let order = [
        spec::Q_M,
        spec::Q_L,
        spec::Q_R,
        spec::Q_O,
        spec::Q_F,
        spec::Q_C,
        spec::Q_ARITH,
        spec::Q_LOGIC,
        spec::Q_RANGE,
        spec::Q_FIXED,
        spec::Q_VAR,
    ];
    let mut comm = [G1Affine::identity(); 15];
    for (i, k) in order.iter().enumerate() {
        comm[i] = commit(srs, &q[*k])?;
    }
    for i in 0..4 {
        comm[11 + i] = commit(srs, &sigma[i])?;
    }
    let rv = RefVerifier {
        label: label.to_vec(),
        vk_n: constraints as u64,
        comm,
        g: srs.g,
        h: srs.h,
        x_h: srs.x_h,
        pi_rows: layout.pi_rows.iter().map(|r| *r as u64).collect(),
        size: n as u64,
        constraints: constraints as u64,
    };
    Some(RefKeys {
        n,
        log_n,
        constraints,
        q,
        sigma_evals: se,
        sigma,
        rv,
    })
}

/// Deviations of a malicious prover from the protocol.
#[derive(Clone, Debug, Default)]
pub struct Deviation {
    /// keep going when the numerator is not divisible by Z_H: drop the
    /// remainder (truncate the quotient to 4n+7 coefficients)
    pub drop_remainder: bool,
    /// replace the grand product by arbitrary values (seeded)
    pub random_z: Option<u64>,
    /// replace the quotient by arbitrary coefficients (seeded)
    pub random_t: Option<u64>,
    /// after the evaluation challenge is known, solve this evaluation (index
    /// into RefProof::eval) so that the linearisation identity r(z) = 0 holds
    pub solve_eval: Option<usize>,
    /// add a constant to this evaluation
    pub shift_eval: Option<(usize, F)>,
    /// feed THESE public inputs to the transcript while proving with the real
    /// ones (a prover that hashes another statement than it proves)
    pub transcript_pi: Option<Vec<F>>,
}

pub struct ProofOut {
    pub proof: RefProof,
    pub ch: Challenges,
    /// the numerator was divisible by the vanishing polynomial
    pub divisible: bool,
    /// value of the linearisation polynomial at the challenge (0 for an
    /// honest run)
    pub r_at_z: F,
}

/// Above this size the O(n^2) transforms are replaced by the crate's FFT
/// kernels, which C19 decides separately against the O(n^2) definitions.
pub const NAIVE_LOG_LIMIT: u32 = 7;

fn interp(vals: &[F], log_n: u32) -> Vec<F> {
    if log_n <= NAIVE_LOG_LIMIT {
        naive::idft(vals, log_n, F::one())
    } else {
        dusk_plonk::verif::ifft(1usize << log_n, vals).expect("domain")
    }
}

/// evaluations of p on the coset g * <w_m> of size 2^log_m
fn coset_eval(p: &[F], log_m: u32, pts: &[F]) -> Vec<F> {
    if log_m <= NAIVE_LOG_LIMIT + 3 {
        eval_on(pts, p)
    } else {
        dusk_plonk::verif::coset_fft(1usize << log_m, p).expect("domain")
    }
}

fn coset_interp(vals: &[F], log_m: u32) -> Vec<F> {
    if log_m <= NAIVE_LOG_LIMIT + 3 {
        naive::idft(vals, log_m, naive::coset_gen())
    } else {
        dusk_plonk::verif::coset_ifft(1usize << log_m, vals).expect("domain")
    }
}

fn blind(base: Vec<F>, blinders: &[F], n: usize) -> Vec<F> {
    // base + (b0 + b1 X + ...) * (X^n - 1)
    let mut c = base;
    c.resize(n + blinders.len(), F::zero());
    for (i, b) in blinders.iter().enumerate() {
        c[i] -= b;
        c[n + i] += b;
    }
    c
}

fn shift_arg(p: &[F], w: &F) -> Vec<F> {
    // p(w X)
    let mut x = F::one();
    p.iter()
        .map(|c| {
            let r = *c * x;
            x *= w;
            r
        })
        .collect()
}

fn eval_on(points: &[F], p: &[F]) -> Vec<F> {
    points.iter().map(|x| horner(p, x)).collect()
}

fn weigh(sep: &F, comps: &[F]) -> F {
    let kappa = sep.square();
    let mut k = F::one();
    let mut acc = F::zero();
    for c in comps {
        acc += *c * k;
        k *= kappa;
    }
    acc * sep
}

/// Run the (possibly deviating) prover. `blinders`: the 14 masking scalars in
/// draw order a,a,b,b,c,c,d,d,z,z,z,t,t,t.
#[allow(clippy::too_many_arguments)]
pub fn prove(
    keys: &RefKeys,
    layout: &Layout,
    srs: &Srs,
    witnesses: &[F],
    pi: &[(usize, F)],
    blinders: &[F; 14],
    version: Version,
    dev: &Deviation,
) -> Result<ProofOut, String> {
    let n = keys.n;
    let log_n = keys.log_n;
    let w = naive::omega(log_n);
    let table = spec::wire_table(layout, witnesses);
    let col = |k: usize| -> Vec<F> { table.iter().map(|r| r[k]).collect() };
    let wires_ev = [col(0), col(1), col(2), col(3)];
    let mut wire_polys: Vec<Vec<F>> = Vec::new();
    for k in 0..4 {
        let base = interp(&wires_ev[k], log_n);
        wire_polys.push(blind(base, &blinders[2 * k..2 * k + 2], n));
    }
    let cm = |p: &[F]| commit(srs, p).ok_or_else(|| "degree exceeds key".to_string());
    let wire_comms = [
        cm(&wire_polys[0])?,
        cm(&wire_polys[1])?,
        cm(&wire_polys[2])?,
        cm(&wire_polys[3])?,
    ];
    let pi_true: Vec<F> = pi.iter().map(|(_, v)| *v).collect();
    // what the transcript absorbs (the claimed statement)
    let pi_vals: Vec<F> = dev.transcript_pi.clone().unwrap_or_else(|| pi_true.clone());
    let mut dense_pi = vec![F::zero(); n];
    for (r, v) in pi {
        if *r < n {
            dense_pi[*r] = *v;
        }
    }
    let pi_poly = trim(interp(&dense_pi, log_n));

    // challenges are derived step by step from a proof under construction
    let mut proof = RefProof {
        comm: [G1Affine::identity(); 11],
        eval: [F::zero(); 15],
    };
    proof.comm[refver::P_A] = wire_comms[0];
    proof.comm[refver::P_B] = wire_comms[1];
    proof.comm[refver::P_C] = wire_comms[2];
    proof.comm[refver::P_D] = wire_comms[3];
    let ch1 = refver::challenges(&keys.rv, &proof, &pi_vals, version);
    let (beta, gamma) = (ch1.beta, ch1.gamma);

    // grand product
    let ks = [F::one(), F::from(K1), F::from(K2), F::from(K3)];
    let mut z_ev = Vec::with_capacity(n);
    let mut acc = F::one();
    let mut root = F::one();
    for i in 0..n {
        z_ev.push(acc);
        let mut num = F::one();
        let mut den = F::one();
        for k in 0..4 {
            num *= wires_ev[k][i] + beta * ks[k] * root + gamma;
            den *= wires_ev[k][i] + beta * keys.sigma_evals[k][i] + gamma;
        }
        acc *= num * den.invert().ok_or("zero permutation denominator")?;
        root *= w;
    }
    if let Some(seed) = dev.random_z {
        z_ev = crate::fe::f_stream(seed, n);
        z_ev[0] = F::one();
    }
    let z_poly = blind(interp(&z_ev, log_n), &blinders[8..11], n);
    proof.comm[refver::P_Z] = cm(&z_poly)?;
    let ch2 = refver::challenges(&keys.rv, &proof, &pi_vals, version);
    let alpha = ch2.alpha;

    // quotient by pointwise division on a coset of size 8n
    let log_m = log_n + 3;
    let m = 1usize << log_m;
    let wm = naive::omega(log_m);
    let g = naive::coset_gen();
    let pts: Vec<F> = {
        let mut v = Vec::with_capacity(m);
        let mut x = g;
        for _ in 0..m {
            v.push(x);
            x *= wm;
        }
        v
    };
    let ce = |p: &[F]| coset_eval(p, log_m, &pts);
    let ev_w: Vec<Vec<F>> = wire_polys.iter().map(|p| ce(p)).collect();
    let ev_w_next: Vec<Vec<F>> = wire_polys
        .iter()
        .map(|p| ce(&shift_arg(p, &w)))
        .collect();
    let ev_z = ce(&z_poly);
    let ev_z_next = ce(&shift_arg(&z_poly, &w));
    let ev_q: Vec<Vec<F>> = keys.q.iter().map(|p| ce(p)).collect();
    let ev_s: Vec<Vec<F>> = keys.sigma.iter().map(|p| ce(p)).collect();
    let ev_pi = ce(&pi_poly);
    let n_f = F::from(n as u64);
    let mut quot_ev = Vec::with_capacity(m);
    for i in 0..m {
        let x = pts[i];
        let rv = RowVals {
            a: ev_w[0][i],
            b: ev_w[1][i],
            c: ev_w[2][i],
            d: ev_w[3][i],
            a_n: ev_w_next[0][i],
            b_n: ev_w_next[1][i],
            d_n: ev_w_next[3][i],
        };
        let mut sel = [F::zero(); 11];
        for k in 0..11 {
            sel[k] = ev_q[k][i];
        }
        let mut num = sel[spec::Q_ARITH] * spec::arith_inner(&sel, &rv) + ev_pi[i];
        num += sel[spec::Q_RANGE] * weigh(&ch2.s_range, &spec::range_components(&rv));
        num += sel[spec::Q_LOGIC] * weigh(&ch2.s_logic, &spec::logic_components(&sel, &rv));
        num += sel[spec::Q_FIXED] * weigh(&ch2.s_fixed, &spec::fixed_components(&sel, &rv));
        num += sel[spec::Q_VAR] * weigh(&ch2.s_var, &spec::var_components(&rv));
        // permutation
        let wv = [rv.a, rv.b, rv.c, rv.d];
        let mut idp = alpha * ev_z[i];
        let mut cpp = alpha * ev_z_next[i];
        for k in 0..4 {
            idp *= wv[k] + beta * ks[k] * x + gamma;
            cpp *= wv[k] + beta * ev_s[k][i] + gamma;
        }
        let zh = naive::pow(x, n as u64) - F::one();
        let l1 = zh * (n_f * (x - F::one())).invert().ok_or("coset meets domain")?;
        num += idp - cpp + (ev_z[i] - F::one()) * l1 * alpha.square();
        quot_ev.push(num * zh.invert().ok_or("coset meets domain")?);
    }
    let mut t = trim(coset_interp(&quot_ev, log_m));
    let divisible = t.len() <= 4 * n + 7;
    if !divisible {
        if !dev.drop_remainder {
            return Err("circuit unsatisfied".into());
        }
        t.truncate(4 * n + 7);
    }
    if let Some(seed) = dev.random_t {
        t = crate::fe::f_stream(seed, 4 * n + 7);
    }
    t.resize(4 * n + 7, F::zero());
    let mut t1 = t[..n].to_vec();
    let mut t2 = t[n..2 * n].to_vec();
    let mut t3 = t[2 * n..3 * n].to_vec();
    let mut t4 = t[3 * n..].to_vec();
    let (b12, b13, b14) = (blinders[11], blinders[12], blinders[13]);
    t1.push(b12);
    t2[0] -= b12;
    t2.push(b13);
    t3[0] -= b13;
    t3.push(b14);
    t4[0] -= b14;
    let (t1, t2, t3, t4) = (trim(t1), trim(t2), trim(t3), trim(t4));
    proof.comm[refver::P_T1] = cm(&t1)?;
    proof.comm[refver::P_T2] = cm(&t2)?;
    proof.comm[refver::P_T3] = cm(&t3)?;
    proof.comm[refver::P_T4] = cm(&t4)?;
    let ch3 = refver::challenges(&keys.rv, &proof, &pi_vals, version);
    let zc = ch3.z;
    let zw = zc * w;

    // evaluations
    use refver::*;
    proof.eval[E_A] = horner(&wire_polys[0], &zc);
    proof.eval[E_B] = horner(&wire_polys[1], &zc);
    proof.eval[E_C] = horner(&wire_polys[2], &zc);
    proof.eval[E_D] = horner(&wire_polys[3], &zc);
    proof.eval[E_AW] = horner(&wire_polys[0], &zw);
    proof.eval[E_BW] = horner(&wire_polys[1], &zw);
    proof.eval[E_DW] = horner(&wire_polys[3], &zw);
    proof.eval[E_QARITH] = horner(&keys.q[spec::Q_ARITH], &zc);
    proof.eval[E_QC] = horner(&keys.q[spec::Q_C], &zc);
    proof.eval[E_QL] = horner(&keys.q[spec::Q_L], &zc);
    proof.eval[E_QR] = horner(&keys.q[spec::Q_R], &zc);
    proof.eval[E_S1] = horner(&keys.sigma[0], &zc);
    proof.eval[E_S2] = horner(&keys.sigma[1], &zc);
    proof.eval[E_S3] = horner(&keys.sigma[2], &zc);
    proof.eval[E_ZW] = horner(&z_poly, &zw);
    if let Some((i, d)) = dev.shift_eval {
        proof.eval[i % 15] += d;
    }

    // linearisation polynomial as a function of the evaluations
    let z_n = naive::pow(zc, n as u64);
    let z_h = z_n - F::one();
    let l1 = z_h * (n_f * (zc - F::one())).invert().ok_or("challenge in domain")?;
    let pi_z = refver::pi_eval_dense(log_n, &keys.rv.pi_rows, &pi_true, &zc, &z_h)
        .ok_or("challenge in domain")?;
    let lin = |e: &[F; 15]| -> Vec<F> {
        let rvv = RowVals {
            a: e[E_A],
            b: e[E_B],
            c: e[E_C],
            d: e[E_D],
            a_n: e[E_AW],
            b_n: e[E_BW],
            d_n: e[E_DW],
        };
        let mut sel = [F::zero(); 11];
        sel[spec::Q_C] = e[E_QC];
        sel[spec::Q_L] = e[E_QL];
        sel[spec::Q_R] = e[E_QR];
        let qa = e[E_QARITH];
        let mut r = poly_scale(&keys.q[spec::Q_M], &(e[E_A] * e[E_B] * qa));
        r = poly_add(&r, &poly_scale(&keys.q[spec::Q_L], &(e[E_A] * qa)));
        r = poly_add(&r, &poly_scale(&keys.q[spec::Q_R], &(e[E_B] * qa)));
        r = poly_add(&r, &poly_scale(&keys.q[spec::Q_O], &(e[E_C] * qa)));
        r = poly_add(&r, &poly_scale(&keys.q[spec::Q_F], &(e[E_D] * qa)));
        r = poly_add(&r, &poly_scale(&keys.q[spec::Q_C], &qa));
        r = poly_add(&r, &poly_scale(&keys.q[spec::Q_RANGE], &weigh(&ch3.s_range, &spec::range_components(&rvv))));
        r = poly_add(&r, &poly_scale(&keys.q[spec::Q_LOGIC], &weigh(&ch3.s_logic, &spec::logic_components(&sel, &rvv))));
        r = poly_add(&r, &poly_scale(&keys.q[spec::Q_FIXED], &weigh(&ch3.s_fixed, &spec::fixed_components(&sel, &rvv))));
        r = poly_add(&r, &poly_scale(&keys.q[spec::Q_VAR], &weigh(&ch3.s_var, &spec::var_components(&rvv))));
        r = poly_add(&r, &[pi_z]);
        let k1 = F::from(K1);
        let k2 = F::from(K2);
        let k3 = F::from(K3);
        let zc_coeff = alpha
            * (e[E_A] + beta * zc + gamma)
            * (e[E_B] + beta * k1 * zc + gamma)
            * (e[E_C] + beta * k2 * zc + gamma)
            * (e[E_D] + beta * k3 * zc + gamma)
            + l1 * alpha.square();
        r = poly_add(&r, &poly_scale(&z_poly, &zc_coeff));
        let sc = -(alpha
            * beta
            * e[E_ZW]
            * (e[E_A] + beta * e[E_S1] + gamma)
            * (e[E_B] + beta * e[E_S2] + gamma)
            * (e[E_C] + beta * e[E_S3] + gamma));
        r = poly_add(&r, &poly_scale(&keys.sigma[3], &sc));
        let mut tq = t1.clone();
        tq = poly_add(&tq, &poly_scale(&t2, &z_n));
        tq = poly_add(&tq, &poly_scale(&t3, &z_n.square()));
        tq = poly_add(&tq, &poly_scale(&t4, &(z_n.square() * z_n)));
        poly_add(&r, &poly_scale(&tq, &(-z_h)))
    };
    // The linearisation identity the verifier checks is r(z) + r0-part = 0;
    // written with the constant folded in: R(z) = r(z) - [constant terms] .
    // Solve one evaluation so that the verifier's scalar identity holds.
    let verifier_identity = |e: &[F; 15]| -> F {
        // r(z) - L1 a^2 - a (a+b s1+g)(b+b s2+g)(c+b s3+g)(d+g) z_w
        let r = lin(e);
        horner(&r, &zc)
            - l1 * alpha.square()
            - alpha
                * (e[E_A] + beta * e[E_S1] + gamma)
                * (e[E_B] + beta * e[E_S2] + gamma)
                * (e[E_C] + beta * e[E_S3] + gamma)
                * (e[E_D] + gamma)
                * e[E_ZW]
            + {
                // the sigma_4 term of r evaluated at z needs s4(z); the
                // identity is exact for the honest prover: nothing to add
                F::zero()
            }
    };
    if let Some(idx) = dev.solve_eval {
        // secant iteration on the (low-degree) dependence of the identity on
        // one evaluation: try the two affine cases first
        let idx = idx % 15;
        let f0 = {
            let mut e = proof.eval;
            e[idx] = F::zero();
            verifier_identity(&e)
        };
        let f1 = {
            let mut e = proof.eval;
            e[idx] = F::one();
            verifier_identity(&e)
        };
        // affine dependence: f(x) = f0 + (f1 - f0) x
        if let Some(inv) = (f1 - f0).invert() {
            proof.eval[idx] = -f0 * inv;
        }
    }
    let r_poly = lin(&proof.eval);
    let r_at_z = verifier_identity(&proof.eval);

    let ch4 = refver::challenges(&keys.rv, &proof, &pi_vals, version);
    // aggregate witness at z
    let mut polys: Vec<&Vec<F>> = vec![
        &r_poly,
        &wire_polys[0],
        &wire_polys[1],
        &wire_polys[2],
        &wire_polys[3],
        &keys.sigma[0],
        &keys.sigma[1],
        &keys.sigma[2],
    ];
    if version != Version::V1 {
        polys.push(&keys.q[spec::Q_ARITH]);
        polys.push(&keys.q[spec::Q_C]);
        polys.push(&keys.q[spec::Q_L]);
        polys.push(&keys.q[spec::Q_R]);
    }
    let mut agg: Vec<F> = Vec::new();
    let mut vp = F::one();
    for p in polys {
        agg = poly_add(&agg, &poly_scale(p, &vp));
        vp *= ch4.v;
    }
    let (wz, _) = naive::div_linear(&agg, &zc);
    let mut agg2: Vec<F> = Vec::new();
    let mut vp = F::one();
    for p in [&z_poly, &wire_polys[0], &wire_polys[1], &wire_polys[3]] {
        agg2 = poly_add(&agg2, &poly_scale(p, &vp));
        vp *= ch4.v_w;
    }
    let (wzw, _) = naive::div_linear(&agg2, &zw);
    proof.comm[P_W] = cm(&wz)?;
    proof.comm[P_WW] = cm(&wzw)?;
    let ch = refver::challenges(&keys.rv, &proof, &pi_vals, version);
    let _ = (poly_mul, poly_sub);
    Ok(ProofOut {
        proof,
        ch,
        divisible,
        r_at_z,
    })
}

/// 14 blinders -> the 896-byte RNG stream that makes `BlsScalar::random`
/// return exactly them
pub fn stream_for(blinders: &[F; 14]) -> Vec<u8> {
    let mut s = Vec::with_capacity(14 * 64);
    for b in blinders {
        s.extend_from_slice(&b.to_bytes());
        s.extend_from_slice(&[0u8; 32]);
    }
    s
}
