//! SPEC: the meaning of a compiled layout, stated as plain field arithmetic
//! from the protocol description. Row identities per gate family as named
//! components, the reference row evaluator, copy-constraint classes and the
//! value models of the composer components.
//!
//! Wire naming: a, b, c (output), d (fourth); `*_n` = value on the next row
//! (cyclic over the padded domain).

use dusk_jubjub::EDWARDS_D;
use serde::Serialize;
use sha2::{Digest, Sha256};

use crate::fe::{f_int, F, U256};

pub const Q_M: usize = 0;
pub const Q_L: usize = 1;
pub const Q_R: usize = 2;
pub const Q_O: usize = 3;
pub const Q_F: usize = 4;
pub const Q_C: usize = 5;
pub const Q_ARITH: usize = 6;
pub const Q_RANGE: usize = 7;
pub const Q_LOGIC: usize = 8;
pub const Q_FIXED: usize = 9;
pub const Q_VAR: usize = 10;

pub const SEL_NAMES: [&str; 11] = [
    "q_m", "q_l", "q_r", "q_o", "q_f", "q_c", "q_arith", "q_range", "q_logic",
    "q_fixed", "q_var",
];

#[derive(Clone, Debug, PartialEq, Eq)]
pub struct Row {
    pub sel: [F; 11],
    pub w: [usize; 4],
}

/// The public description of a circuit: selectors, wiring, PI rows.
#[derive(Clone, Debug, PartialEq, Eq)]
pub struct Layout {
    pub rows: Vec<Row>,
    pub pi_rows: Vec<usize>,
}

impl Layout {
    pub fn from_snapshot(s: &dusk_plonk::verif::VerifSnapshot) -> Self {
        Layout {
            rows: s
                .gates
                .iter()
                .map(|g| Row {
                    sel: g.selectors,
                    w: g.wires,
                })
                .collect(),
            pi_rows: s.public_inputs.iter().map(|(r, _)| *r).collect(),
        }
    }

    pub fn digest(&self) -> [u8; 32] {
        let mut h = Sha256::new();
        h.update((self.rows.len() as u64).to_le_bytes());
        for r in &self.rows {
            for s in &r.sel {
                h.update(s.to_bytes());
            }
            for w in &r.w {
                h.update((*w as u64).to_le_bytes());
            }
        }
        h.update((self.pi_rows.len() as u64).to_le_bytes());
        for p in &self.pi_rows {
            h.update((*p as u64).to_le_bytes());
        }
        h.finalize().into()
    }

    pub fn size(&self) -> usize {
        self.rows.len().next_power_of_two()
    }

    /// first difference with another layout, for diagnostics
    pub fn first_diff(&self, o: &Layout) -> Option<String> {
        if self.rows.len() != o.rows.len() {
            return Some(format!(
                "row count {} vs {}",
                self.rows.len(),
                o.rows.len()
            ));
        }
        for (i, (a, b)) in self.rows.iter().zip(&o.rows).enumerate() {
            if a.sel != b.sel {
                for k in 0..11 {
                    if a.sel[k] != b.sel[k] {
                        return Some(format!("row {i}: {} differs", SEL_NAMES[k]));
                    }
                }
            }
            if a.w != b.w {
                return Some(format!("row {i}: wiring {:?} vs {:?}", a.w, b.w));
            }
        }
        if self.pi_rows != o.pi_rows {
            return Some(format!(
                "public-input rows {:?} vs {:?}",
                self.pi_rows, o.pi_rows
            ));
        }
        None
    }
}

/// wire values of one row plus the next row's a, b, d
#[derive(Clone, Copy, Debug)]
pub struct RowVals {
    pub a: F,
    pub b: F,
    pub c: F,
    pub d: F,
    pub a_n: F,
    pub b_n: F,
    pub d_n: F,
}

pub fn delta(f: F) -> F {
    f * (f - F::one()) * (f - F::from(2u64)) * (f - F::from(3u64))
}

/// arithmetic identity WITHOUT q_arith and PI: q_m ab + q_l a + q_r b + q_o c
/// + q_f d + q_c
pub fn arith_inner(sel: &[F; 11], v: &RowVals) -> F {
    sel[Q_M] * v.a * v.b
        + sel[Q_L] * v.a
        + sel[Q_R] * v.b
        + sel[Q_O] * v.c
        + sel[Q_F] * v.d
        + sel[Q_C]
}

/// range: four quad differences, each must be in {0,1,2,3}
pub fn range_components(v: &RowVals) -> [F; 4] {
    let four = F::from(4u64);
    [
        delta(v.c - four * v.d),
        delta(v.b - four * v.c),
        delta(v.a - four * v.b),
        delta(v.d_n - four * v.a),
    ]
}

pub const RANGE_NAMES: [&str; 4] =
    ["quad c-4d", "quad b-4c", "quad a-4b", "quad d'-4a"];

/// the XOR/AND selector identity of the logic gate.
/// With quads A, B, product wire w = A*B and output quad D:
/// q_c = -1 (XOR): D = A + B - 2*g(A,B)..., stated through the interpolating
/// polynomial used by the protocol (Aztec turbo-PLONK logic widget).
pub fn logic_select(a: &F, b: &F, w: &F, d: &F, q_c: &F) -> F {
    let f = |x: u64| F::from(x);
    let big_f = w
        * (w * (f(4) * w - f(18) * (a + b) + f(81))
            + f(18) * (a.square() + b.square())
            - f(81) * (a + b)
            + f(83));
    let e = f(3) * (a + b + d) - f(2) * big_f;
    let bb = q_c * (f(9) * d - f(3) * (a + b));
    bb + e
}

/// logic: three quad ranges (a, b, d accumulators), product wire, selector
pub fn logic_components(sel: &[F; 11], v: &RowVals) -> [F; 5] {
    let four = F::from(4u64);
    let a = v.a_n - four * v.a;
    let b = v.b_n - four * v.b;
    let d = v.d_n - four * v.d;
    [
        delta(a),
        delta(b),
        delta(d),
        v.c - a * b,
        logic_select(&a, &b, &v.c, &d, &sel[Q_C]),
    ]
}

pub const LOGIC_NAMES: [&str; 5] = [
    "quad a'-4a",
    "quad b'-4b",
    "quad d'-4d",
    "product wire",
    "and/xor selector",
];

/// fixed-base: digit in {-1,0,1}; c = digit*q_c; x and y accumulator steps
/// with the table point (q_l, q_r)
pub fn fixed_components(sel: &[F; 11], v: &RowVals) -> [F; 4] {
    let one = F::one();
    let bit = v.d_n - v.d - v.d;
    let x_beta = sel[Q_L];
    let y_beta = sel[Q_R];
    let y_alpha = bit.square() * (y_beta - one) + one;
    let x_alpha = bit * x_beta;
    let xy_alpha = v.c;
    let t = xy_alpha * v.a * v.b * EDWARDS_D;
    [
        bit * (bit - one) * (bit + one),
        bit * sel[Q_C] - xy_alpha,
        (v.a_n + v.a_n * t) - (v.a * y_alpha + v.b * x_alpha),
        (v.b_n - v.b_n * t) - (v.b * y_alpha + v.a * x_alpha),
    ]
}

pub const FIXED_NAMES: [&str; 4] =
    ["digit in {-1,0,1}", "xy_alpha", "x accumulator", "y accumulator"];

/// variable-base addition: (x1,y1)=(a,b), (x2,y2)=(c,d), next row
/// (x3,y3,_,x1*y2) = (a',b',_,d')
pub fn var_components(v: &RowVals) -> [F; 3] {
    let x1 = v.a;
    let y1 = v.b;
    let x2 = v.c;
    let y2 = v.d;
    let x3 = v.a_n;
    let y3 = v.b_n;
    let x1y2 = v.d_n;
    let y1x2 = y1 * x2;
    [
        x1 * y2 - x1y2,
        (x1y2 + y1x2) - (x3 + x3 * EDWARDS_D * x1y2 * y1x2),
        (y1 * y2 + x1 * x2) - (y3 - y3 * EDWARDS_D * x1y2 * y1x2),
    ]
}

pub const VAR_NAMES: [&str; 3] = ["x1*y2 wire", "x3", "y3"];

#[derive(Clone, Debug, PartialEq, Eq, Serialize)]
pub struct Unsat {
    pub row: usize,
    pub family: &'static str,
    pub component: &'static str,
}

/// Wire-value table of an instance on a layout: value of each wire of each
/// row (rows >= constraints are zero padding).
pub fn wire_table(layout: &Layout, witnesses: &[F]) -> Vec<[F; 4]> {
    let size = layout.size().max(1);
    let mut t = vec![[F::zero(); 4]; size];
    for (i, r) in layout.rows.iter().enumerate() {
        for k in 0..4 {
            t[i][k] = witnesses[r.w[k]];
        }
    }
    t
}

pub fn row_vals(table: &[[F; 4]], i: usize) -> RowVals {
    let n = table.len();
    let nx = (i + 1) % n;
    RowVals {
        a: table[i][0],
        b: table[i][1],
        c: table[i][2],
        d: table[i][3],
        a_n: table[nx][0],
        b_n: table[nx][1],
        d_n: table[nx][3],
    }
}

/// identities of one row of the compiled layout (appends what is violated)
pub fn eval_row(layout: &Layout, table: &[[F; 4]], pi: &[F], i: usize, out: &mut Vec<Unsat>) {
    let zero = F::zero();
    let r = &layout.rows[i];

    let v = row_vals(table, i);
    let p = pi.get(i).copied().unwrap_or(zero);
    if r.sel[Q_ARITH] * arith_inner(&r.sel, &v) + p != zero {
        out.push(Unsat {
            row: i,
            family: "arithmetic",
            component: "arithmetic+PI",
        });
    }
    if r.sel[Q_RANGE] != zero {
        for (k, c) in range_components(&v).iter().enumerate() {
            if *c != zero {
                out.push(Unsat {
                    row: i,
                    family: "range",
                    component: RANGE_NAMES[k],
                });
            }
        }
    }
    if r.sel[Q_LOGIC] != zero {
        for (k, c) in logic_components(&r.sel, &v).iter().enumerate() {
            if *c != zero {
                out.push(Unsat {
                    row: i,
                    family: "logic",
                    component: LOGIC_NAMES[k],
                });
            }
        }
    }
    if r.sel[Q_FIXED] != zero {
        for (k, c) in fixed_components(&r.sel, &v).iter().enumerate() {
            if *c != zero {
                out.push(Unsat {
                    row: i,
                    family: "fixed-base",
                    component: FIXED_NAMES[k],
                });
            }
        }
    }
    if r.sel[Q_VAR] != zero {
        for (k, c) in var_components(&v).iter().enumerate() {
            if *c != zero {
                out.push(Unsat {
                    row: i,
                    family: "variable-base",
                    component: VAR_NAMES[k],
                });
            }
        }
    }
}

/// Reference row-by-row evaluation of gate identities. `layout` is the
/// COMPILED description; `table` the instance's wire values on the padded
/// domain; `pi` the instance's dense public-input values per row.
pub fn eval_rows(layout: &Layout, table: &[[F; 4]], pi: &[F]) -> Vec<Unsat> {
    let mut out = Vec::new();
    let zero = F::zero();
    for i in 0..layout.rows.len() {
        eval_row(layout, table, pi, i, &mut out);
    }
    // public inputs on rows beyond the description cannot be cancelled
    for (i, p) in pi.iter().enumerate().skip(layout.rows.len()) {
        if *p != zero {
            out.push(Unsat {
                row: i,
                family: "arithmetic",
                component: "arithmetic+PI",
            });
        }
    }
    out
}

/// Copy constraints of the COMPILED layout: all positions wired to the same
/// witness index must carry equal values in the instance table.
pub fn eval_copies(layout: &Layout, table: &[[F; 4]]) -> Vec<Unsat> {
    let nw = layout
        .rows
        .iter()
        .flat_map(|r| r.w.iter().copied())
        .max()
        .map(|m| m + 1)
        .unwrap_or(0);
    let mut first: Vec<Option<F>> = vec![None; nw];
    let mut out = Vec::new();
    for (i, r) in layout.rows.iter().enumerate() {
        for k in 0..4 {
            let v = table[i][k];
            match first[r.w[k]] {
                None => first[r.w[k]] = Some(v),
                Some(f) => {
                    if f != v && !out.iter().any(|u: &Unsat| u.row == i) {
                        out.push(Unsat {
                            row: i,
                            family: "permutation",
                            component: "copy constraint",
                        });
                    }
                }
            }
        }
    }
    out
}

/// Full reference satisfiability of an instance against a compiled layout.
pub fn sat(layout: &Layout, table: &[[F; 4]], pi: &[F]) -> Vec<Unsat> {
    let mut v = eval_rows(layout, table, pi);
    v.extend(eval_copies(layout, table));
    v
}

/// Convenience: evaluate a composer snapshot against its own layout.
pub fn sat_snapshot(s: &dusk_plonk::verif::VerifSnapshot) -> Vec<Unsat> {
    let layout = Layout::from_snapshot(s);
    let table = wire_table(&layout, &s.witnesses);
    let mut pi = vec![F::zero(); layout.size()];
    for (r, v) in &s.public_inputs {
        pi[*r] = *v;
    }
    eval_rows(&layout, &table, &pi)
}

// ------------------------------------------------------------------
// value models of components (what they must return)

pub fn low_bits(v: &F, n: u32) -> F {
    crate::fe::f_of(f_int(v).low_bits(n))
}

pub fn fits_bits(v: &F, n: u32) -> bool {
    f_int(v).fits(n)
}

pub fn bit_and(a: &F, b: &F, bits: u32) -> F {
    crate::fe::f_of(f_int(a).low_bits(bits).and(f_int(b).low_bits(bits)))
}

pub fn bit_xor(a: &F, b: &F, bits: u32) -> F {
    crate::fe::f_of(f_int(a).low_bits(bits).xor(f_int(b).low_bits(bits)))
}

pub fn le_bits(v: &F, n: usize) -> Vec<F> {
    let u = f_int(v);
    (0..n)
        .map(|i| if u.bit(i as u32) { F::one() } else { F::zero() })
        .collect()
}

pub fn is_canonical_jubjub_scalar(v: &F) -> bool {
    f_int(v).lt(crate::fe::RJ_MOD)
}

pub fn u256_of(v: &F) -> U256 {
    f_int(v)
}
