//! Structure-aware byte mutation scripts over valid encodings, shared by the
//! proptest tier of C17 and the libFuzzer targets.

use std::sync::{Arc, OnceLock};

use dusk_bls12_381::G1Affine;
use dusk_bytes::Serializable;
use dusk_plonk::prelude::{Prover, PublicParameters, Verifier};
use serde::{Deserialize, Serialize};

use crate::fe::{Fe, F, R_MOD, U256};
use crate::prog::{Op, Program, PtSpec};
use crate::sys::{self, Route};

pub const T_PROVER: u8 = 0;
pub const T_VERIFIER: u8 = 1;
pub const T_PROOF: u8 = 2;
pub const T_PP: u8 = 3;
pub const T_COMPRESSED: u8 = 4;
pub const TARGETS: [&str; 5] = ["prover", "verifier", "proof", "public-parameters", "compressed-circuit"];

pub struct Base {
    pub program: Arc<Program>,
    pub pp: Arc<PublicParameters>,
    pub prover: Prover,
    pub verifier: Verifier,
    pub prover_bytes: Vec<u8>,
    pub verifier_bytes: Vec<u8>,
    pub proof_bytes: Vec<u8>,
    pub pi: Vec<F>,
    pub compressed: Vec<u8>,
    pub pp_bytes: Vec<u8>,
    pub label: Vec<u8>,
}

fn base_programs() -> Vec<(Vec<Op>, usize, &'static [u8])> {
    vec![
        (vec![Op::Public(Fe(F::from(7u64))), Op::Wit(Fe(F::from(3u64)))], 16, b"a" as &[u8]),
        (
            vec![
                Op::Public(Fe(F::from(9u64))),
                Op::RangeBits { bits: 6, v: Fe(F::from(33u64)) },
                Op::Logic { xor: true, pairs: 1, a: 65535, b: 20000 },
                Op::PointWit(PtSpec::sub(F::from(3u64))),
                Op::TorsionFree(u16::MAX),
            ],
            256,
            b"label-2",
        ),
        (vec![Op::Pad(5)], 16, b""),
    ]
}

pub fn bases() -> &'static Vec<Base> {
    static B: OnceLock<Vec<Base>> = OnceLock::new();
    B.get_or_init(|| {
        base_programs()
            .into_iter()
            .map(|(ops, cap, label)| {
                let program = Arc::new(Program::solved(ops));
                let pp = sys::pp(cap);
                let (prover, verifier) = sys::compile(&pp, label, &program, Route::Instance).expect("base compiles");
                let (proof, pi) = sys::prove(&prover, &program, 1).expect("base proves");
                let compressed = sys::compress(&program).expect("base compresses");
                Base {
                    prover_bytes: prover.to_bytes(),
                    verifier_bytes: verifier.to_bytes(),
                    proof_bytes: proof.to_bytes().to_vec(),
                    pi,
                    compressed,
                    pp_bytes: pp.to_var_bytes(),
                    label: label.to_vec(),
                    program,
                    pp,
                    prover,
                    verifier,
                }
            })
            .collect()
    })
}

#[derive(Debug, Clone, Serialize, Deserialize)]
pub enum Edit {
    Flip(u32),
    /// write a u64 at an interesting offset (index into the target's offset
    /// table, or a raw offset when beyond it)
    SetU64 { at: u16, val: u8, be: bool },
    Truncate(u32),
    /// truncate exactly at a structural boundary (start of a slot / region)
    TruncateAt(u16),
    Extend(u16, u8),
    Splice { from: u8, src: u32, len: u16, dst: u32 },
    /// replace a 48-byte compressed G1 slot
    G1 { slot: u16, kind: u8 },
    /// replace a 97-byte raw G1 slot (commit key of a prover)
    RawG1 { slot: u16, kind: u8 },
    /// replace a 32-byte scalar slot
    Scalar { slot: u16, kind: u8 },
    /// replace a 96-byte compressed G2 slot of an opening key
    G2 { slot: u16, kind: u8 },
    /// compressed circuits: apply the edits to the inflated payload
    Inner(Vec<Edit>),
    /// MessagePack-aware (inflated payload of a compressed circuit): re-encode
    /// the `which`-th integer / array-length token with another value, keeping
    /// everything else well-formed
    MsgInt { which: u16, val: u8, lengths: bool },
}

#[derive(Debug, Clone, Serialize, Deserialize)]
pub struct Script {
    pub target: u8,
    pub base: u8,
    pub edits: Vec<Edit>,
}

fn be64(b: &[u8]) -> usize {
    u64::from_be_bytes(b[..8].try_into().unwrap()) as usize
}

/// region table of a prover encoding: (header offsets, prover key start,
/// commit key start, verifier key start)
pub struct Regions {
    pub u64_offsets: Vec<(usize, bool)>,
    pub g1_slots: Vec<usize>,
    pub raw_slots: Vec<usize>,
    pub scalar_slots: Vec<usize>,
    pub g2_slots: Vec<usize>,
}

pub fn regions(target: u8, b: &[u8]) -> Regions {
    let mut r = Regions { u64_offsets: Vec::new(), g1_slots: Vec::new(), raw_slots: Vec::new(), scalar_slots: Vec::new(), g2_slots: Vec::new() };
    match target {
        T_PROVER if b.len() >= 48 => {
            for i in 0..6 {
                r.u64_offsets.push((8 * i, true));
            }
            let (ll, pkl, ckl) = (be64(&b[0..]), be64(&b[8..]), be64(&b[16..]));
            let pk = 48usize.saturating_add(ll).min(b.len());
            let ck = pk.saturating_add(pkl).min(b.len());
            let vk = ck.saturating_add(ckl).min(b.len());
            // prover key: n, eval size, then (len, poly, evals)*
            r.u64_offsets.push((pk, false));
            r.u64_offsets.push((pk + 8, false));
            r.u64_offsets.push((pk + 16, false));
            let mut o = pk + 24;
            while o + 32 <= ck.min(b.len()) && r.scalar_slots.len() < 4000 {
                r.scalar_slots.push(o);
                o += 32;
            }
            r.u64_offsets.push((ck, false));
            let mut o = ck + 8;
            while o + 97 <= vk.min(b.len()) {
                r.raw_slots.push(o);
                o += 97;
            }
            r.u64_offsets.push((vk, false));
            for i in 0..15 {
                r.g1_slots.push(vk + 8 + 48 * i);
            }
        }
        T_VERIFIER if b.len() >= 48 => {
            for i in 0..6 {
                r.u64_offsets.push((8 * i, true));
            }
            let (ll, vkl, okl) = (be64(&b[0..]), be64(&b[8..]), be64(&b[16..]));
            let vk = 48usize.saturating_add(ll).min(b.len());
            r.u64_offsets.push((vk, false));
            for i in 0..15 {
                r.g1_slots.push(vk + 8 + 48 * i);
            }
            let ok = vk.saturating_add(vkl).min(b.len());
            r.g1_slots.push(ok);
            r.g2_slots.push(ok + 48);
            r.g2_slots.push(ok + 144);
            let pis = ok.saturating_add(okl).min(b.len());
            let mut o = pis;
            while o + 8 <= b.len() && r.u64_offsets.len() < 64 {
                r.u64_offsets.push((o, true));
                o += 8;
            }
        }
        T_PROOF => {
            for i in 0..11 {
                r.g1_slots.push(48 * i);
            }
            for i in 0..15 {
                r.scalar_slots.push(528 + 32 * i);
            }
        }
        T_PP => {
            r.g1_slots.push(0);
            r.g2_slots.push(48);
            r.g2_slots.push(144);
            let mut o = 240;
            while o + 48 <= b.len() && r.g1_slots.len() < 600 {
                r.g1_slots.push(o);
                o += 48;
            }
        }
        _ => {}
    }
    r
}

fn u64_val(kind: u8, len: usize) -> u64 {
    match kind % 10 {
        0 => 0,
        1 => 1,
        2 => len as u64,
        3 => len as u64 + 1,
        4 => (len as u64).wrapping_sub(1),
        5 => 1 << 32,
        6 => 1 << 63,
        7 => u64::MAX,
        8 => 8,
        _ => (len as u64 / 2).max(2),
    }
}

/// an on-curve point outside the prime-order subgroup
pub fn non_subgroup_g1() -> G1Affine {
    static P: OnceLock<G1Affine> = OnceLock::new();
    *P.get_or_init(|| {
        let mut x = [0u8; 48];
        for i in 1u8..=255 {
            x[47] = i;
            x[0] = 0x80;
            if let Some(p) = Option::<G1Affine>::from(G1Affine::from_compressed_unchecked(&x)) {
                if !bool::from(p.is_torsion_free()) {
                    return p;
                }
            }
        }
        panic!("no non-subgroup point found")
    })
}

const P_LIMBS: [u64; 6] = [
    0xb9fe_ffff_ffff_aaab,
    0x1eab_fffe_b153_ffff,
    0x6730_d2a0_f6b0_f624,
    0x6477_4b84_f385_12bf,
    0x4b1b_a7b6_434b_acd7,
    0x1a01_11ea_397f_e69a,
];

fn add_p_limbs(chunk: &mut [u8]) {
    let mut carry = 0u128;
    for i in 0..6 {
        let l = u64::from_le_bytes(chunk[8 * i..8 * i + 8].try_into().unwrap()) as u128;
        let s = l + P_LIMBS[i] as u128 + carry;
        chunk[8 * i..8 * i + 8].copy_from_slice(&(s as u64).to_le_bytes());
        carry = s >> 64;
    }
}

pub fn crafted_g1(kind: u8) -> [u8; 48] {
    match kind % 7 {
        0 => G1Affine::identity().to_bytes(),
        1 => {
            // x with no point on the curve (decompression fails)
            let mut b = [0u8; 48];
            b[0] = 0x80;
            b[47] = 0; // x = 0: y^2 = 4 has a root? use a value known to fail:
            for i in 0u8..255 {
                b[47] = i;
                if Option::<G1Affine>::from(G1Affine::from_compressed_unchecked(&b)).is_none() {
                    break;
                }
            }
            b
        }
        2 => non_subgroup_g1().to_bytes(),
        3 => {
            // x >= p
            let mut b = [0xffu8; 48];
            b[0] = 0x9f;
            b
        }
        4 => [0xff; 48],
        5 => G1Affine::generator().to_bytes(),
        _ => {
            // infinity flag with a non-zero coordinate
            let mut b = G1Affine::generator().to_bytes();
            b[0] |= 0x40;
            b
        }
    }
}

pub fn crafted_raw_g1(kind: u8) -> [u8; 97] {
    let g = G1Affine::generator().to_raw_bytes();
    // the identity's own coordinates under a flag byte that is neither 0 nor 1
    // (flag and coordinates must be judged together, not one after the other)
    if kind % 12 >= 8 {
        let mut b = G1Affine::identity().to_raw_bytes();
        b[96] = [2u8, 3, 0x80, 0xff][(kind % 4) as usize];
        return b;
    }
    match kind % 8 {
        0 => {
            let mut b = g;
            b[96] = 2;
            b
        }
        1 => {
            let mut b = g;
            b[96] = 1;
            b
        }
        2 => {
            let mut b = g;
            add_p_limbs(&mut b[0..48]);
            b
        }
        3 => {
            let mut b = g;
            add_p_limbs(&mut b[48..96]);
            b
        }
        4 => {
            let mut b = g;
            b[48] ^= 1; // off curve
            b
        }
        5 => non_subgroup_g1().to_raw_bytes(),
        6 => G1Affine::identity().to_raw_bytes(),
        _ => {
            let mut b = g;
            b[96] = 0xff;
            b
        }
    }
}

pub fn crafted_g2(kind: u8) -> [u8; 96] {
    use dusk_bls12_381::G2Affine;
    match kind % 4 {
        0 => G2Affine::identity().to_bytes(),
        1 => G2Affine::generator().to_bytes(),
        2 => [0xff; 96],
        _ => {
            let mut b = G2Affine::generator().to_bytes();
            b[0] |= 0x40;
            b
        }
    }
}

pub fn crafted_scalar(kind: u8) -> [u8; 32] {
    match kind % 5 {
        0 => R_MOD.to_le_bytes(),
        1 => R_MOD.add(U256::ONE).0.to_le_bytes(),
        2 => [0xff; 32],
        3 => F::zero().to_bytes(),
        _ => (-F::one()).to_bytes(),
    }
}

fn put(b: &mut [u8], off: usize, src: &[u8]) {
    if off < b.len() {
        let n = src.len().min(b.len() - off);
        b[off..off + n].copy_from_slice(&src[..n]);
    }
}

pub fn apply_edits(target: u8, mut b: Vec<u8>, edits: &[Edit]) -> Vec<u8> {
    for e in edits.iter().take(8) {
        let reg = regions(target, &b);
        match e {
            Edit::Flip(pos) => {
                if !b.is_empty() {
                    let bit = (*pos as usize) % (b.len() * 8);
                    b[bit / 8] ^= 1 << (bit % 8);
                }
            }
            Edit::SetU64 { at, val, be } => {
                let (off, is_be) = if (*at as usize) < reg.u64_offsets.len() {
                    reg.u64_offsets[*at as usize]
                } else if b.len() >= 8 {
                    ((*at as usize * 8) % (b.len() - 7), *be)
                } else {
                    continue;
                };
                let v = u64_val(*val, b.len());
                let bytes = if is_be { v.to_be_bytes() } else { v.to_le_bytes() };
                put(&mut b, off, &bytes);
            }
            Edit::Truncate(n) => {
                if !b.is_empty() {
                    let keep = (*n as usize) % b.len();
                    b.truncate(keep);
                }
            }
            Edit::TruncateAt(i) => {
                let mut offs: Vec<usize> = reg
                    .u64_offsets
                    .iter()
                    .map(|(o, _)| *o)
                    .chain(reg.g1_slots.iter().copied())
                    .chain(reg.raw_slots.iter().copied())
                    .chain(reg.g2_slots.iter().copied())
                    .chain(reg.scalar_slots.iter().copied())
                    .filter(|o| *o <= b.len())
                    .collect();
                offs.sort();
                offs.dedup();
                if !offs.is_empty() {
                    let keep = offs[*i as usize % offs.len()];
                    b.truncate(keep);
                }
            }
            Edit::Extend(n, byte) => {
                let n = (*n as usize) % 300;
                b.extend(std::iter::repeat(*byte).take(n));
            }
            Edit::Splice { from, src, len, dst } => {
                let bs = bases();
                let other = &bs[*from as usize % bs.len()];
                let srcb = match target {
                    T_PROVER => &other.prover_bytes,
                    T_VERIFIER => &other.verifier_bytes,
                    T_PROOF => &other.proof_bytes,
                    T_PP => &other.pp_bytes,
                    _ => &other.compressed,
                };
                if srcb.is_empty() || b.is_empty() {
                    continue;
                }
                let s = (*src as usize) % srcb.len();
                let l = (*len as usize).min(srcb.len() - s).min(400);
                let d = (*dst as usize) % b.len();
                let piece = srcb[s..s + l].to_vec();
                put(&mut b, d, &piece);
            }
            Edit::G1 { slot, kind } => {
                if !reg.g1_slots.is_empty() {
                    let off = reg.g1_slots[*slot as usize % reg.g1_slots.len()];
                    put(&mut b, off, &crafted_g1(*kind));
                }
            }
            Edit::RawG1 { slot, kind } => {
                if !reg.raw_slots.is_empty() {
                    let off = reg.raw_slots[*slot as usize % reg.raw_slots.len()];
                    put(&mut b, off, &crafted_raw_g1(*kind));
                }
            }
            Edit::Scalar { slot, kind } => {
                if !reg.scalar_slots.is_empty() {
                    let off = reg.scalar_slots[*slot as usize % reg.scalar_slots.len()];
                    put(&mut b, off, &crafted_scalar(*kind));
                }
            }
            Edit::G2 { slot, kind } => {
                if !reg.g2_slots.is_empty() {
                    let off = reg.g2_slots[*slot as usize % reg.g2_slots.len()];
                    put(&mut b, off, &crafted_g2(*kind));
                }
            }
            Edit::MsgInt { .. } if target == T_COMPRESSED => {
                // at the outer level of a compressed circuit: edit the inflated payload
                if let Ok(payload) = miniz_oxide::inflate::decompress_to_vec_with_limit(&b, 1 << 22) {
                    let m = apply_edits(255, payload, std::slice::from_ref(e));
                    b = miniz_oxide::deflate::compress_to_vec(&m, 6);
                }
            }
            Edit::MsgInt { which, val, lengths } => {
                let toks: Vec<_> = msgpack_int_tokens(&b).into_iter().filter(|t| t.2 == *lengths).collect();
                if !toks.is_empty() {
                    // the first few tokens are the top-level counts: favour them
                    let k = if *which % 3 == 0 { (*which as usize / 3) % toks.len().min(6) } else { *which as usize % toks.len() };
                    let (s0, e0, is_len, cur) = toks[k];
                    let nv = msg_value(cur, *val);
                    let enc = if is_len { msgpack_array_len(nv) } else { msgpack_uint(nv) };
                    b.splice(s0..e0, enc);
                }
            }
            Edit::Inner(inner) => {
                if target == T_COMPRESSED {
                    if let Ok(payload) = miniz_oxide::inflate::decompress_to_vec_with_limit(&b, 1 << 22) {
                        let m = apply_edits(255, payload, inner);
                        b = miniz_oxide::deflate::compress_to_vec(&m, 6);
                    }
                }
            }
        }
    }
    b
}

/// (start, end, is_length, value) of every integer and array-length token of
/// a MessagePack stream (tolerant linear walk; stops at the first byte it
/// cannot interpret)
pub fn msgpack_int_tokens(b: &[u8]) -> Vec<(usize, usize, bool, u64)> {
    let mut out = Vec::new();
    let mut i = 0usize;
    let rd = |b: &[u8], at: usize, n: usize| -> Option<u64> {
        let s = b.get(at..at.checked_add(n)?)?;
        let mut v = 0u64;
        for x in s {
            v = (v << 8) | *x as u64;
        }
        Some(v)
    };
    while i < b.len() {
        let t = b[i];
        let (len, skip): (usize, usize) = match t {
            0x00..=0x7f => {
                out.push((i, i + 1, false, t as u64));
                (1, 0)
            }
            0x90..=0x9f => {
                out.push((i, i + 1, true, (t & 0x0f) as u64));
                (1, 0)
            }
            0x80..=0x8f => (1, 0),
            0xa0..=0xbf => (1, (t & 0x1f) as usize),
            0xc0 | 0xc2 | 0xc3 => (1, 0),
            0xc4 | 0xd9 => match rd(b, i + 1, 1) {
                Some(n) => (2, n as usize),
                None => break,
            },
            0xc5 | 0xda => match rd(b, i + 1, 2) {
                Some(n) => (3, n as usize),
                None => break,
            },
            0xc6 | 0xdb => match rd(b, i + 1, 4) {
                Some(n) => (5, n as usize),
                None => break,
            },
            0xca => (5, 0),
            0xcb => (9, 0),
            0xcc | 0xcd | 0xce | 0xcf => {
                let n = 1usize << (t - 0xcc);
                match rd(b, i + 1, n) {
                    Some(v) => out.push((i, i + 1 + n, false, v)),
                    None => break,
                }
                (1 + n, 0)
            }
            0xd0 | 0xd1 | 0xd2 | 0xd3 => (1 + (1usize << (t - 0xd0)), 0),
            0xdc => {
                match rd(b, i + 1, 2) {
                    Some(v) => out.push((i, i + 3, true, v)),
                    None => break,
                }
                (3, 0)
            }
            0xdd => {
                match rd(b, i + 1, 4) {
                    Some(v) => out.push((i, i + 5, true, v)),
                    None => break,
                }
                (5, 0)
            }
            0xde => (3, 0),
            0xdf => (5, 0),
            0xe0..=0xff => (1, 0),
            _ => break,
        };
        i = match i.checked_add(len).and_then(|x| x.checked_add(skip)) {
            Some(x) => x,
            None => break,
        };
    }
    out
}

fn msgpack_uint(v: u64) -> Vec<u8> {
    if v < 128 {
        vec![v as u8]
    } else if v < (1 << 8) {
        vec![0xcc, v as u8]
    } else if v < (1 << 16) {
        let mut o = vec![0xcd];
        o.extend_from_slice(&(v as u16).to_be_bytes());
        o
    } else if v < (1 << 32) {
        let mut o = vec![0xce];
        o.extend_from_slice(&(v as u32).to_be_bytes());
        o
    } else {
        let mut o = vec![0xcf];
        o.extend_from_slice(&v.to_be_bytes());
        o
    }
}

fn msgpack_array_len(v: u64) -> Vec<u8> {
    if v < 16 {
        vec![0x90 | v as u8]
    } else if v < (1 << 16) {
        let mut o = vec![0xdc];
        o.extend_from_slice(&(v as u16).to_be_bytes());
        o
    } else {
        let mut o = vec![0xdd];
        o.extend_from_slice(&(v.min(u32::MAX as u64) as u32).to_be_bytes());
        o
    }
}

/// replacement values for a declared count / index: small, off by one, and
/// large ones that stay clear of the 2^31..2^58 band (an allocation of that
/// many entries aborts the process instead of failing a check)
fn msg_value(cur: u64, val: u8) -> u64 {
    match val % 12 {
        0 => 0,
        1 => 1,
        2 => cur.wrapping_add(1),
        3 => cur.wrapping_sub(1),
        4 => cur.wrapping_mul(2),
        5 => 1 << 16,
        6 => 1 << 20,
        7 => 1 << 24,
        8 => 1 << 27,
        9 => 1 << 61,
        10 => (1 << 62) + 12345,
        _ => u64::MAX >> 1,
    }
}

pub fn base_bytes(target: u8, base: u8) -> Vec<u8> {
    let bs = bases();
    let b = &bs[base as usize % bs.len()];
    match target % 5 {
        T_PROVER => b.prover_bytes.clone(),
        T_VERIFIER => b.verifier_bytes.clone(),
        T_PROOF => b.proof_bytes.clone(),
        T_PP => b.pp_bytes.clone(),
        _ => b.compressed.clone(),
    }
}

pub fn run_script(s: &Script) -> Vec<u8> {
    apply_edits(s.target % 5, base_bytes(s.target, s.base), &s.edits)
}

/// Decode arbitrary fuzzer bytes into a script (hand-written, total).
pub fn script_from_bytes(data: &[u8]) -> Script {
    let mut i = 0usize;
    let mut next = |n: usize| -> u64 {
        let mut v = 0u64;
        for k in 0..n {
            let b = data.get(i + k).copied().unwrap_or(0);
            v |= (b as u64) << (8 * k);
        }
        i += n;
        v
    };
    let target = next(1) as u8 % 5;
    let base = next(1) as u8;
    let count = 1 + next(1) as usize % 4;
    let mut edits = Vec::new();
    let one = |next: &mut dyn FnMut(usize) -> u64| -> Edit {
        match next(1) % 10 {
            9 => Edit::MsgInt { which: next(2) as u16, val: next(1) as u8, lengths: next(1) % 4 == 0 },
            8 => {
                if next(1) % 2 == 0 {
                    Edit::G2 { slot: next(2) as u16, kind: next(1) as u8 }
                } else {
                    Edit::TruncateAt(next(2) as u16)
                }
            }
            0 => Edit::Flip(next(4) as u32),
            1 => Edit::SetU64 { at: next(2) as u16, val: next(1) as u8, be: next(1) % 2 == 0 },
            2 => Edit::Truncate(next(4) as u32),
            3 => Edit::Extend(next(2) as u16, next(1) as u8),
            4 => Edit::Splice { from: next(1) as u8, src: next(4) as u32, len: next(2) as u16, dst: next(4) as u32 },
            5 => Edit::G1 { slot: next(2) as u16, kind: next(1) as u8 },
            6 => Edit::RawG1 { slot: next(2) as u16, kind: next(1) as u8 },
            _ => Edit::Scalar { slot: next(2) as u16, kind: next(1) as u8 },
        }
    };
    for _ in 0..count {
        if target == T_COMPRESSED && next(1) % 2 == 0 {
            let e = one(&mut next);
            edits.push(Edit::Inner(vec![e]));
        } else {
            edits.push(one(&mut next));
        }
    }
    Script { target, base, edits }
}
