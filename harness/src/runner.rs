//! Engine shared by all checks: seeded proptest driving in shards, case
//! classification, distinct/non-trivial accounting, shrinking to a replay
//! file, known-findings matching and the evidence writer.

use std::collections::{BTreeMap, HashSet};
use std::fmt::Debug;
use std::path::PathBuf;
use std::sync::atomic::{AtomicBool, AtomicU64, Ordering};
use std::sync::Mutex;
use std::time::Instant;

use proptest::strategy::BoxedStrategy;
use proptest::test_runner::{
    Config, RngAlgorithm, RngSeed, TestCaseError, TestError, TestRng,
    TestRunner,
};
use serde::de::DeserializeOwned;
use serde::Serialize;
use serde_json::{json, Map, Value};
use sha2::{Digest, Sha256};

/// Root of the verification tree: $VERIF_ROOT, else the directory that holds
/// MANIFEST.json above the running executable, else /verif. (Background
/// snapshot runs thereby write into their own snapshot.)
pub fn verif_root() -> &'static str {
    static R: std::sync::OnceLock<String> = std::sync::OnceLock::new();
    R.get_or_init(|| {
        if let Ok(r) = std::env::var("VERIF_ROOT") {
            return r;
        }
        if let Ok(exe) = std::env::current_exe() {
            for a in exe.ancestors() {
                if a.join("MANIFEST.json").exists() && a.join("properties.jsonl").exists() {
                    return a.display().to_string();
                }
            }
        }
        "/verif".to_string()
    })
}

#[derive(Clone, Copy, PartialEq, Eq, Debug)]
pub enum Tier {
    Quick,
    Thorough,
}

impl Tier {
    pub fn name(self) -> &'static str {
        match self {
            Tier::Quick => "quick",
            Tier::Thorough => "thorough",
        }
    }
    /// pick by tier
    pub fn pick<T>(self, quick: T, thorough: T) -> T {
        match self {
            Tier::Quick => quick,
            Tier::Thorough => thorough,
        }
    }
}

/// A property failure: `sig` identifies the failing class (used for known
/// findings and to keep shrinking on the same failure), `msg` is free text.
#[derive(Debug, Clone)]
pub struct Fail {
    pub sig: String,
    pub msg: String,
}

impl Fail {
    pub fn new(sig: impl Into<String>, msg: impl Into<String>) -> Self {
        Fail {
            sig: sig.into(),
            msg: msg.into(),
        }
    }
}

pub type PResult = Result<(), Fail>;

#[macro_export]
macro_rules! ensure {
    ($cond:expr, $sig:expr, $($fmt:tt)*) => {
        if !($cond) {
            return Err($crate::runner::Fail::new($sig, format!($($fmt)*)));
        }
    };
}

#[derive(Debug, Clone)]
pub struct KnownFinding {
    pub property: String,
    pub signature: String,
    pub description: String,
}

struct ViolationRec {
    prop: String,
    sig: String,
    msg: String,
    case: Value,
}

pub struct Ctx {
    pub id: String,
    pub tier: Tier,
    pub seed: u64,
    pub strict: bool,
    start: Instant,
    evals: AtomicU64,
    labels: Mutex<BTreeMap<String, u64>>,
    distinct: Mutex<HashSet<[u8; 12]>>,
    samples: Mutex<BTreeMap<String, Vec<Value>>>,
    violations: Mutex<Vec<ViolationRec>>,
    known: Vec<KnownFinding>,
    known_hits: Mutex<BTreeMap<String, u64>>,
    excluded: Mutex<BTreeMap<String, u64>>,
    extra: Mutex<Map<String, Value>>,
    rule: Mutex<Vec<String>>,
    assumptions: Mutex<Vec<String>>,
    infra: Mutex<Vec<String>>,
    exhaustive: AtomicBool,
}

impl Ctx {
    pub fn new(id: &str, tier: Tier, seed: u64, strict: bool) -> Self {
        let known = load_known(id);
        Ctx {
            id: id.to_string(),
            tier,
            seed,
            strict,
            start: Instant::now(),
            evals: AtomicU64::new(0),
            labels: Mutex::new(BTreeMap::new()),
            distinct: Mutex::new(HashSet::new()),
            samples: Mutex::new(BTreeMap::new()),
            violations: Mutex::new(Vec::new()),
            known,
            known_hits: Mutex::new(BTreeMap::new()),
            excluded: Mutex::new(BTreeMap::new()),
            extra: Mutex::new(Map::new()),
            rule: Mutex::new(Vec::new()),
            assumptions: Mutex::new(Vec::new()),
            infra: Mutex::new(Vec::new()),
            exhaustive: AtomicBool::new(false),
        }
    }

    /// count one generated case under a class label
    pub fn eval(&self, label: &str) {
        if frozen() {
            return;
        }
        self.evals.fetch_add(1, Ordering::Relaxed);
        *self.labels.lock().unwrap().entry(label.to_string()).or_insert(0) += 1;
    }

    /// count a class label without counting an evaluation
    pub fn label(&self, label: &str) {
        if frozen() {
            return;
        }
        *self.labels.lock().unwrap().entry(label.to_string()).or_insert(0) += 1;
    }

    pub fn label_n(&self, label: &str, n: u64) {
        if frozen() {
            return;
        }
        *self.labels.lock().unwrap().entry(label.to_string()).or_insert(0) += n;
    }

    pub fn add_evals(&self, n: u64) {
        if frozen() {
            return;
        }
        self.evals.fetch_add(n, Ordering::Relaxed);
    }

    /// register a case that is non-trivial by the check's rule; distinctness
    /// is by the hash of `key`
    pub fn nontrivial(&self, key: &[u8]) {
        if frozen() {
            return;
        }
        let h = Sha256::digest(key);
        let mut k = [0u8; 12];
        k.copy_from_slice(&h[..12]);
        self.distinct.lock().unwrap().insert(k);
    }

    pub fn nontrivial_json<T: Serialize>(&self, key: &T) {
        let s = serde_json::to_vec(key).unwrap_or_default();
        self.nontrivial(&s);
    }

    /// keep up to 2 samples per label (40 overall)
    pub fn sample(&self, label: &str, f: impl FnOnce() -> Value) {
        if frozen() {
            return;
        }
        let mut s = self.samples.lock().unwrap();
        let total: usize = s.values().map(|v| v.len()).sum();
        if total >= 60 {
            return;
        }
        let e = s.entry(label.to_string()).or_default();
        if e.is_empty() {
            e.push(f());
        }
    }

    pub fn excluded(&self, label: &str) {
        if frozen() {
            return;
        }
        *self
            .excluded
            .lock()
            .unwrap()
            .entry(label.to_string())
            .or_insert(0) += 1;
    }

    pub fn rule(&self, text: &str) {
        let mut r = self.rule.lock().unwrap();
        if !r.iter().any(|x| x == text) {
            r.push(text.to_string());
        }
    }

    pub fn assume(&self, text: &str) {
        let mut r = self.assumptions.lock().unwrap();
        if !r.iter().any(|x| x == text) {
            r.push(text.to_string());
        }
    }

    pub fn extra(&self, key: &str, v: Value) {
        self.extra.lock().unwrap().insert(key.to_string(), v);
    }

    pub fn set_exhaustive(&self, v: bool) {
        self.exhaustive.store(v, Ordering::Relaxed);
    }

    /// harness problem (never a violation): exit 2
    pub fn infra_problem(&self, text: String) {
        eprintln!("HARNESS-PROBLEM: {text}");
        self.infra.lock().unwrap().push(text);
    }

    /// Is `sig` a listed known finding of this property?
    pub fn is_known(&self, sig: &str) -> bool {
        !self.strict && self.known.iter().any(|k| k.signature == sig)
    }

    pub fn known_hit(&self, sig: &str) {
        *self
            .known_hits
            .lock()
            .unwrap()
            .entry(sig.to_string())
            .or_insert(0) += 1;
    }

    /// Record a violation unless its signature is a listed known finding.
    pub fn violation(&self, prop: &str, fail: &Fail, case: Value) {
        if self.is_known(&fail.sig) {
            self.known_hit(&fail.sig);
            return;
        }
        let mut v = self.violations.lock().unwrap();
        // one record per signature is enough
        if v.iter().any(|r| r.sig == fail.sig && r.prop == prop) {
            return;
        }
        v.push(ViolationRec {
            prop: prop.to_string(),
            sig: fail.sig.clone(),
            msg: fail.msg.clone(),
            case,
        });
    }

    pub fn violation_count(&self) -> usize {
        self.violations.lock().unwrap().len()
    }

    pub fn elapsed(&self) -> f64 {
        self.start.elapsed().as_secs_f64()
    }

    /// Write replays + evidence, print result lines, return the exit code.
    pub fn finish(&self) -> i32 {
        let wall = self.start.elapsed().as_secs_f64();
        for (sig, n) in self.known_hits.lock().unwrap().iter() {
            let desc = self
                .known
                .iter()
                .find(|k| &k.signature == sig)
                .map(|k| k.description.clone())
                .unwrap_or_default();
            println!(
                "KNOWN-FINDING: property={} {} ({} hits) {}",
                self.id, sig, n, desc
            );
        }
        let viols = self.violations.lock().unwrap();
        let mut replay_paths = Vec::new();
        for v in viols.iter() {
            let rec = json!({
                "property": self.id,
                "prop": v.prop,
                "signature": v.sig,
                "message": v.msg,
                "case": v.case,
            });
            let bytes = serde_json::to_vec_pretty(&rec).unwrap();
            let h = hex::encode(&Sha256::digest(&bytes)[..6]);
            let dir = PathBuf::from(verif_root()).join("replays/found");
            let _ = std::fs::create_dir_all(&dir);
            let path = dir.join(format!("{}-{}-{}.json", self.id, v.prop, h));
            let _ = std::fs::write(&path, &bytes);
            println!(
                "VIOLATION property={} replay={}",
                self.id,
                path.display()
            );
            println!("  signature: {}", v.sig);
            println!("  message: {}", v.msg);
            replay_paths.push(path.display().to_string());
        }

        let labels = self.labels.lock().unwrap().clone();
        let samples_map = self.samples.lock().unwrap().clone();
        let mut samples: Vec<Value> = Vec::new();
        for (l, vs) in samples_map {
            for v in vs {
                samples.push(json!({"class": l, "case": v}));
            }
        }
        // a run that stopped at its first violation may have completed no
        // other case: the violating cases are then the samples
        if samples.is_empty() {
            for v in viols.iter() {
                samples.push(json!({"class": format!("violation {}", v.sig), "case": v.case}));
            }
        }
        let evaluations = self.evals.load(Ordering::Relaxed);
        let distinct = self.distinct.lock().unwrap().len();
        let mut coverage = Map::new();
        coverage.insert("evaluations".into(), json!(evaluations));
        coverage.insert("distinct_nontrivial".into(), json!(distinct));
        coverage.insert(
            "rule".into(),
            json!(self.rule.lock().unwrap().join(" | ")),
        );
        coverage.insert("samples".into(), Value::Array(samples));
        coverage.insert("classes".into(), json!(labels));
        coverage.insert(
            "excluded_by_construction".into(),
            json!(*self.excluded.lock().unwrap()),
        );
        coverage.insert(
            "known_finding_hits".into(),
            json!(*self.known_hits.lock().unwrap()),
        );
        coverage.insert(
            "exhaustive".into(),
            json!(self.exhaustive.load(Ordering::Relaxed)),
        );
        coverage.insert("replays".into(), json!(replay_paths));
        for (k, v) in self.extra.lock().unwrap().iter() {
            coverage.insert(k.clone(), v.clone());
        }
        let infra = self.infra.lock().unwrap().clone();
        if !infra.is_empty() {
            coverage.insert("harness_problems".into(), json!(infra));
        }
        let evidence = json!({
            "property_id": self.id,
            "tier": self.tier.name(),
            "seed": self.seed,
            "level": "exploration",
            "coverage": Value::Object(coverage),
            "assumptions": *self.assumptions.lock().unwrap(),
            "wall_s": wall,
            "violations": viols.len(),
        });
        if !self.strict {
            let dir = PathBuf::from(verif_root()).join("evidence");
            let _ = std::fs::create_dir_all(&dir);
            let path = dir.join(format!("{}.json", self.id));
            if let Err(e) = std::fs::write(
                &path,
                serde_json::to_vec_pretty(&evidence).unwrap(),
            ) {
                eprintln!("HARNESS-PROBLEM: cannot write evidence: {e}");
                return 2;
            }
        }
        println!(
            "{} {}: evaluations={} distinct_nontrivial={} violations={} wall={:.1}s",
            self.id,
            self.tier.name(),
            evaluations,
            distinct,
            viols.len(),
            wall
        );
        if !viols.is_empty() {
            1
        } else if !infra.is_empty() {
            2
        } else {
            0
        }
    }
}

fn load_known(id: &str) -> Vec<KnownFinding> {
    let path = PathBuf::from(verif_root()).join("known_findings.json");
    let Ok(bytes) = std::fs::read(&path) else {
        return Vec::new();
    };
    let Ok(v) = serde_json::from_slice::<Value>(&bytes) else {
        eprintln!("HARNESS-PROBLEM: known_findings.json does not parse");
        return Vec::new();
    };
    let mut out = Vec::new();
    if let Some(arr) = v.get("findings").and_then(|x| x.as_array()) {
        for f in arr {
            let p = f.get("property").and_then(|x| x.as_str()).unwrap_or("");
            if p != id {
                continue;
            }
            out.push(KnownFinding {
                property: p.to_string(),
                signature: f
                    .get("signature")
                    .and_then(|x| x.as_str())
                    .unwrap_or("")
                    .to_string(),
                description: f
                    .get("description")
                    .and_then(|x| x.as_str())
                    .unwrap_or("")
                    .to_string(),
            });
        }
    }
    out
}

pub fn splitmix(mut x: u64) -> u64 {
    x = x.wrapping_add(0x9E3779B97F4A7C15);
    let mut z = x;
    z = (z ^ (z >> 30)).wrapping_mul(0xBF58476D1CE4E5B9);
    z = (z ^ (z >> 27)).wrapping_mul(0x94D049BB133111EB);
    z ^ (z >> 31)
}

pub fn name_hash(s: &str) -> u64 {
    let h = Sha256::digest(s.as_bytes());
    u64::from_le_bytes(h[..8].try_into().unwrap())
}

/// A generated-input property: a strategy constructor and a check function.
pub struct Prop<V: 'static> {
    pub name: &'static str,
    pub strat: fn(Tier) -> BoxedStrategy<V>,
    pub check: fn(&Ctx, &V) -> PResult,
    /// shrink budget (re-executions of the check) after a failure
    pub max_shrink: u32,
}

impl<V: 'static> Prop<V> {
    pub fn new(
        name: &'static str,
        strat: fn(Tier) -> BoxedStrategy<V>,
        check: fn(&Ctx, &V) -> PResult,
    ) -> Self {
        Prop {
            name,
            strat,
            check,
            max_shrink: 1500,
        }
    }
    pub fn shrink(mut self, n: u32) -> Self {
        self.max_shrink = n;
        self
    }
}

thread_local! {
    /// set while a shard is shrinking a failure: counters are frozen
    static FROZEN: std::cell::Cell<bool> = const { std::cell::Cell::new(false) };
}

fn frozen() -> bool {
    FROZEN.with(|f| f.get())
}

pub trait PropDyn: Sync {
    fn name(&self) -> &'static str;
    fn run(&self, ctx: &Ctx, cases: u32, shards: usize);
    fn replay(&self, ctx: &Ctx, case: Value) -> PResult;
}

impl<V> PropDyn for Prop<V>
where
    V: Debug + Clone + Serialize + DeserializeOwned + 'static,
{
    fn name(&self) -> &'static str {
        self.name
    }

    fn run(&self, ctx: &Ctx, cases: u32, shards: usize) {
        let shards = shards.max(1);
        let per = cases.div_ceil(shards as u32).max(1);
        // set by the first shard that meets a failure: the others stop
        // generating and leave the shrinking to it
        let stop = AtomicBool::new(false);
        let stop = &stop;
        std::thread::scope(|s| {
            for shard in 0..shards {
                let name = self.name;
                let strat_fn = self.strat;
                let check = self.check;
                let max_shrink = self.max_shrink;
                s.spawn(move || {
                    run_shard(
                        ctx, name, strat_fn, check, per, shard as u64,
                        max_shrink, stop,
                    )
                });
            }
        });
    }

    fn replay(&self, ctx: &Ctx, case: Value) -> PResult {
        let v: V = serde_json::from_value(case).map_err(|e| {
            Fail::new("replay-parse", format!("cannot parse case: {e}"))
        })?;
        (self.check)(ctx, &v)
    }
}

fn run_shard<V>(
    ctx: &Ctx,
    name: &'static str,
    strat_fn: fn(Tier) -> BoxedStrategy<V>,
    check: fn(&Ctx, &V) -> PResult,
    cases: u32,
    shard: u64,
    max_shrink: u32,
    stop: &AtomicBool,
) where
    V: Debug + Clone + Serialize + 'static,
{
    FROZEN.with(|f| f.set(false));
    let seed =
        splitmix(ctx.seed ^ name_hash(name) ^ splitmix(shard.wrapping_add(1)));
    let mut seed_bytes = [0u8; 32];
    for i in 0..4 {
        seed_bytes[i * 8..(i + 1) * 8]
            .copy_from_slice(&splitmix(seed.wrapping_add(i as u64)).to_le_bytes());
    }
    let config = Config {
        cases,
        failure_persistence: None,
        rng_seed: RngSeed::Fixed(seed),
        max_shrink_iters: max_shrink,
        max_global_rejects: 1_000_000,
        ..Config::default()
    };
    let rng = TestRng::from_seed(RngAlgorithm::ChaCha, &seed_bytes);
    let mut runner = TestRunner::new_with_rng(config, rng);
    let strat = strat_fn(ctx.tier);
    // signature of the first failure: shrinking keeps to it
    let first: Mutex<Option<Fail>> = Mutex::new(None);
    let result = runner.run(&strat, |v| {
        if stop.load(Ordering::Relaxed) && first.lock().unwrap().is_none() {
            // another shard is already shrinking a failure of this property
            return Ok(());
        }
        let r = std::panic::catch_unwind(std::panic::AssertUnwindSafe(|| {
            check(ctx, &v)
        }));
        let r = match r {
            Ok(r) => r,
            Err(p) => Err(Fail::new(
                "harness-or-target-panic",
                format!("panic escaped the check: {}", panic_text(&p)),
            )),
        };
        match r {
            Ok(()) => Ok(()),
            Err(f) => {
                if ctx.is_known(&f.sig) {
                    ctx.known_hit(&f.sig);
                    return Ok(());
                }
                let mut g = first.lock().unwrap();
                FROZEN.with(|fz| fz.set(true));
                match &*g {
                    None => {
                        if stop.swap(true, Ordering::Relaxed) {
                            return Ok(());
                        }
                        *g = Some(f.clone());
                        Err(TestCaseError::fail(f.sig))
                    }
                    Some(orig) if orig.sig == f.sig => {
                        *g = Some(f.clone());
                        Err(TestCaseError::fail(f.sig))
                    }
                    // a different failure met while shrinking: not this one
                    Some(_) => Ok(()),
                }
            }
        }
    });
    FROZEN.with(|f| f.set(false));
    match result {
        Ok(()) => {}
        Err(TestError::Fail(_, v)) => {
            let f = first
                .lock()
                .unwrap()
                .clone()
                .unwrap_or_else(|| Fail::new("unknown", "unknown"));
            let case = serde_json::to_value(&v).unwrap_or(Value::Null);
            ctx.violation(name, &f, case);
        }
        Err(TestError::Abort(r)) => {
            ctx.infra_problem(format!("{name}: proptest aborted: {r}"));
        }
    }
}

pub fn panic_text(p: &Box<dyn std::any::Any + Send>) -> String {
    if let Some(s) = p.downcast_ref::<&str>() {
        s.to_string()
    } else if let Some(s) = p.downcast_ref::<String>() {
        s.clone()
    } else {
        "<non-string panic>".to_string()
    }
}

/// Run a closure of the code under test, converting a panic into a Fail with
/// the given signature.
pub fn no_panic<T>(
    sig: &str,
    f: impl FnOnce() -> T,
) -> Result<T, Fail> {
    match std::panic::catch_unwind(std::panic::AssertUnwindSafe(f)) {
        Ok(v) => Ok(v),
        Err(p) => Err(Fail::new(sig, format!("panicked: {}", panic_text(&p)))),
    }
}

/// Quiet panic hook (the default hook prints a backtrace banner for every
/// caught panic; keep one line).
pub fn install_quiet_panic_hook() {
    std::panic::set_hook(Box::new(|info| {
        if std::env::var("VERIF_PANIC_VERBOSE").is_ok() {
            eprintln!("panic: {info}");
        }
    }));
}

pub fn default_shards() -> usize {
    std::env::var("VERIF_SHARDS")
        .ok()
        .and_then(|s| s.parse().ok())
        .unwrap_or(16)
}
