// Shared by the std harness and the alloc-only digest binary (C18): circuits
// written against the public prelude only, a deterministic digest routine.

use dusk_plonk::prelude::*;
use rand_chacha::ChaCha20Rng;
use rand_core::SeedableRng;
use sha2::{Digest, Sha256};

#[derive(Clone, Debug)]
pub struct Mixed {
    pub size: usize,
    pub a: u64,
    /// changes constants of the arithmetic chain: another circuit with the
    /// same constraint count
    pub variant: u64,
}

impl Default for Mixed {
    fn default() -> Self {
        Mixed { size: 64, a: 3, variant: 0 }
    }
}

impl Circuit for Mixed {
    fn circuit(&self, c: &mut Composer) -> Result<(), Error> {
        let w = c.append_witness(BlsScalar::from(self.a));
        let p = c.append_public(BlsScalar::from(self.a + 11));
        c.component_range_bits::<40>(w);
        let x = c.append_logic_xor::<20>(w, p);
        let y = c.append_logic_and::<7>(x, p);
        let t = c.component_truncate::<9>(y);
        let _bits = c.component_decomposition::<12>(t);
        let g = c.component_mul_generator(w, dusk_jubjub::GENERATOR_EXTENDED)?;
        let q = c.append_point(dusk_jubjub::GENERATOR_EXTENDED)?;
        let q = c.assert_torsion_free_point(q);
        let s = c.component_add_point(g, q);
        c.assert_equal_public_point(
            s.into(),
            dusk_jubjub::GENERATOR_EXTENDED * dusk_jubjub::JubJubScalar::from(self.a + 1),
        )?;
        // arithmetic chain up to the requested size
        let mut acc = w;
        let mut k = 1u64;
        while c.constraints() + 1 < self.size {
            acc = c.gate_add(
                Constraint::new()
                    .left(BlsScalar::from(k))
                    .right(BlsScalar::from(k + 1))
                    .constant(BlsScalar::from(k * 3 + self.variant))
                    .a(acc)
                    .b(x),
            );
            k += 1;
        }
        c.append_public(BlsScalar::from(k));
        Ok(())
    }
}

pub fn hex(d: &[u8]) -> String {
    d.iter().map(|b| format!("{b:02x}")).collect()
}

pub fn sha(d: &[u8]) -> String {
    hex(&Sha256::digest(d))
}

/// (size, witness seed) of the shared circuit set
pub fn circuit_set(thorough: bool) -> Vec<(usize, u64)> {
    let mut v = vec![(300usize, 5u64), (1000, 6), (4000, 7)];
    if thorough {
        v.push((8000, 8));
        v.push((2040, 9));
    }
    v
}

/// digests of everything compilation and proving produce for one circuit
pub fn digests(pp: &PublicParameters, size: usize, a: u64) -> Result<Vec<(String, String)>, Error> {
    let circuit = Mixed { size, a, variant: 0 };
    let label = format!("c18-{size}");
    let (prover, verifier) = Compiler::compile_with_circuit(pp, label.as_bytes(), &circuit)?;
    let mut rng = ChaCha20Rng::seed_from_u64(0xC18 + size as u64);
    let (proof, pi) = prover.prove(&mut rng, &circuit)?;
    verifier.verify(&proof, &pi)?;
    use dusk_bytes::Serializable;
    Ok(vec![
        (format!("{size}.prover"), sha(&prover.to_bytes())),
        (format!("{size}.verifier"), sha(&verifier.to_bytes())),
        (format!("{size}.proof"), sha(&proof.to_bytes())),
        (format!("{size}.public_inputs"), sha(&pi.iter().flat_map(|p| p.to_bytes()).collect::<Vec<u8>>())),
    ])
}

pub fn setup(capacity: usize) -> PublicParameters {
    let mut rng = ChaCha20Rng::seed_from_u64(0x5eed_0000 + capacity as u64);
    PublicParameters::setup(capacity, &mut rng).expect("setup")
}

/// Three DIFFERENT circuits with one label and one constraint count. Their
/// keys and proofs must not depend on which of them the process handled
/// before (state keyed by label and size only would confuse them).
pub fn history_set() -> Vec<Mixed> {
    vec![
        Mixed { size: 1200, a: 5, variant: 0 },
        Mixed { size: 1200, a: 5, variant: 1 },
        Mixed { size: 1200, a: 6, variant: 2 },
    ]
}

/// digests of the history set, computed in the given order within this process
pub fn history_digests(pp: &PublicParameters, order: &[usize]) -> Result<Vec<(String, String)>, Error> {
    use dusk_bytes::Serializable;
    let set = history_set();
    let mut out = Vec::new();
    for i in order {
        let circuit = &set[*i % set.len()];
        let (prover, verifier) = Compiler::compile_with_circuit(pp, b"c18-history", circuit)?;
        let mut rng = ChaCha20Rng::seed_from_u64(0xC18_000 + *i as u64);
        let (proof, pi) = prover.prove(&mut rng, circuit)?;
        verifier.verify(&proof, &pi)?;
        out.push((format!("history{i}.prover"), sha(&prover.to_bytes())));
        out.push((format!("history{i}.verifier"), sha(&verifier.to_bytes())));
        out.push((format!("history{i}.proof"), sha(&proof.to_bytes())));
    }
    Ok(out)
}
