//! Raw bytes into the proof decoder: canonicity (C16) and totality (C17).
#![no_main]
use libfuzzer_sys::fuzz_target;
use vharness::checks::c17;

fuzz_target!(|data: &[u8]| {
    if let Err(f) = c17::oracle(vharness::mutate::T_PROOF, 0, data) {
        panic!("C17 oracle: {} — {}", f.sig, f.msg);
    }
    if data.len() == 1008 {
        use dusk_plonk::prelude::Proof;
        if let Ok(p) = <Proof as dusk_bytes::DeserializableSlice<1008>>::from_slice(data) {
            let b = <Proof as dusk_bytes::Serializable<1008>>::to_bytes(&p);
            assert!(b[..] == data[..], "C16: accepted proof string is not canonical");
        }
    }
});
