//! Raw bytes (first byte: base artefact index) into the checked pp decoder,
//! seeded with the valid encodings; the C17 oracle runs inside the target.
#![no_main]
use libfuzzer_sys::fuzz_target;
use vharness::checks::c17;

fuzz_target!(|data: &[u8]| {
    let base = data.first().copied().unwrap_or(0);
    if let Err(f) = c17::oracle(vharness::mutate::T_PP, base, data.get(1..).unwrap_or(&[])) {
        panic!("C17 oracle: {} — {}", f.sig, f.msg);
    }
});
