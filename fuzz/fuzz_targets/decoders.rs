//! Coverage-guided fuzzing of all checked decoders through the mutation
//! script interpreter; the C17 oracle runs inside the target.
#![no_main]
use libfuzzer_sys::fuzz_target;
use vharness::checks::c17;
use vharness::mutate;

fuzz_target!(|data: &[u8]| {
    let script = mutate::script_from_bytes(data);
    let bytes = mutate::run_script(&script);
    if let Err(f) = c17::oracle(script.target % 5, script.base, &bytes) {
        panic!("C17 oracle: {} — {}", f.sig, f.msg);
    }
});
