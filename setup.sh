#!/bin/bash
# Offline build of everything the registered commands need.
set -e
HERE="$(cd "$(dirname "${BASH_SOURCE[0]}")" && pwd)"
export CARGO_NET_OFFLINE=true
cd "$HERE/harness"
mkdir -p target
cargo build --offline --profile fast --bin vcheck
cargo build --offline --profile checked --bin vcheck
cd "$HERE/harness-nostd"
cargo build --offline --profile fast
cd "$HERE/harness-nolegacy"
cargo build --offline --profile fast
echo "setup ok"
