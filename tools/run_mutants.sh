#!/bin/bash
# Runs every mutant in /verif/mutants/index.json against its expected checks (quick tier, reduced cases)
# and appends to /verif/mutants/RESULTS.md. /repo must be clean and idle while this runs.
set -u
cd /verif
OUT=/verif/mutants/RESULTS.md
echo "# Sensitivity results ($(date -u +%F))" > $OUT
echo >> $OUT
echo "| mutant | check | outcome | first violation line |" >> $OUT
echo "|---|---|---|---|" >> $OUT
python3 - <<'PY' > /tmp/mutant_list.txt
import json
for m in json.load(open('/verif/mutants/index.json')):
    for c in m['expected_checks']:
        print(m['name'], c)
PY
while read NAME CHECK; do
  PATCH=/verif/mutants/$NAME.diff
  if ! git -C /repo diff --quiet; then echo "repo dirty; abort"; exit 2; fi
  git -C /repo apply "$PATCH" || { echo "| $NAME | $CHECK | patch does not apply | |" >> $OUT; continue; }
  LOG=$(timeout 1500 ./check $CHECK --cases-scale ${MUT_SCALE:-0.5} 2>&1)
  RC=$?
  git -C /repo checkout -- .
  V=$(echo "$LOG" | grep -A1 "signature:" | head -2 | tr '\n' ' ' | cut -c1-200)
  case $RC in 0) O="MISSED";; 1) O="caught";; 124) O="timeout";; *) O="exit $RC";; esac
  echo "| $NAME | $CHECK | $O | $V |" >> $OUT
  echo "$NAME $CHECK -> $O"
done < /tmp/mutant_list.txt
git -C /repo checkout -- .
echo done
