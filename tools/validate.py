#!/usr/bin/env python3-vt
"""Validates MANIFEST.json and every evidence file against the schemas."""
import json, sys, os, jsonschema
ok=True
m=json.load(open('/verif/MANIFEST.json'))
try:
    jsonschema.validate(m, json.load(open('/root/.vp/MANIFEST.schema.json')))
    print("MANIFEST ok:", len(m['checks']), "checks,", len(m.get('not_applicable',[])), "not applicable")
except Exception as e:
    ok=False; print("MANIFEST INVALID:", e)
es=json.load(open('/root/.vp/EVIDENCE.schema.json'))
for c in m['checks']:
    p=c['evidence_file']
    if not os.path.exists(p):
        ok=False; print("missing", p); continue
    try:
        e=json.load(open(p)); jsonschema.validate(e, es)
        cov=e['coverage']
        print(f"{c['property_id']}: {e['tier']} evals={cov['evaluations']} distinct={cov['distinct_nontrivial']} samples={len(cov['samples'])} wall={e['wall_s']:.0f}s violations={e.get('violations')}")
    except Exception as ex:
        ok=False; print("INVALID", p, str(ex)[:200])
ids={json.loads(l)['id'] for l in open('/verif/properties.jsonl')}
claimed={c['property_id'] for c in m['checks']}|{n['property_id'] for n in m.get('not_applicable',[])}
if ids!=claimed:
    ok=False; print("properties not covered by MANIFEST:", ids^claimed)
sys.exit(0 if ok else 1)
