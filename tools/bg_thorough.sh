#!/bin/bash
# tools/bg_thorough.sh <tier> <seed> <ID>...   — for `vp run --with-repo -- tools/bg_thorough.sh thorough 1 C01 C02`
# Runs checks from a snapshot of /verif against the snapshot of /repo's HEAD ($VP_RUN_REPO), so that
# patches applied to /repo while it runs do not disturb it. Results are NOT evidence (see DESIGN 10.6).
set -u
TIER="$1"; SEED="$2"; shift 2
HERE="$(cd "$(dirname "$(dirname "$(realpath "$0")")")" && pwd)"
cd "$HERE"
if [ -n "${VP_RUN_REPO:-}" ]; then
  sed -i "s|path = \"/repo\"|path = \"$VP_RUN_REPO\"|" harness/Cargo.toml harness-nostd/Cargo.toml harness-nolegacy/Cargo.toml fuzz/Cargo.toml
fi
export VERIF_ROOT="$HERE"
for ID in "$@"; do
  START=$(date +%s)
  OUT=$(VERIF_SEED=$SEED ./check $ID --tier $TIER 2>&1); RC=$?
  END=$(date +%s)
  echo "== $ID tier=$TIER seed=$SEED rc=$RC $((END-START))s"
  echo "$OUT" | grep -E "^C[0-9]+ (quick|thorough):|VIOLATION|KNOWN-FINDING|signature:|message:|HARNESS" | head -12
done
