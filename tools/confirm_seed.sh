#!/bin/bash
# tools/confirm_seed.sh <ID> [in-crate-demo-path mod-file mod-line]
# Confirms a seeded change in a scratch worktree: demo fails with the patch, passes without,
# and the repository's own suite passes with the patch. Appends to seeded/<ID>/confirm.log.
set -u
ID="$1"; SEED=/verif/seeded/$ID; WT=/tmp/confirm-$ID
LOG=$SEED/confirm.log   # full log (git-ignored); a digest is written to confirm.txt at the end; : > $LOG
git -C /repo worktree add -q --detach $WT HEAD || exit 2
export CARGO_TARGET_DIR=/tmp/confirm-target CARGO_NET_OFFLINE=true
cd $WT
if [ $# -ge 4 ]; then
  mkdir -p "$(dirname "$WT/$2")"
  cp $SEED/demo.rs "$WT/$2"
  python3 - "$WT/$3" "$4" "${5:-demo}" <<'PY'
import sys
path, anchor, name = sys.argv[1:4]
s = open(path).read()
line = f"#[cfg(test)]\nmod {name};\n" if not anchor.startswith("mod ") else f"mod {name};\n"
i = s.index(anchor) + len(anchor)
s = s[:i] + "\n" + line + s[i:]
open(path, "w").write(s)
PY
  DEMO="cargo test --offline --lib ${6:-demo}"
else
  cp $SEED/demo.rs $WT/tests/seed_demo.rs
  DEMO="cargo test --offline ${DEMO_FEATURES:-} --test seed_demo"
fi
echo "== demo WITHOUT the change (must pass)" >> $LOG
$DEMO >> $LOG 2>&1; echo "exit=$?" >> $LOG
git apply $SEED/patch.diff || { echo "patch does not apply" >> $LOG; }
echo "== demo WITH the change (must fail)" >> $LOG
$DEMO >> $LOG 2>&1; echo "exit=$?" >> $LOG
echo "== existing suite WITH the change (must pass, 176 tests)" >> $LOG
rm -f $WT/tests/seed_demo.rs
[ $# -ge 4 ] && { rm -f "$WT/$2"; git checkout -- "$3"; }
cargo nextest run --workspace --no-fail-fast --tool-config-file pb:/w/lib/nextest.toml --profile pb --test-threads 8 --offline 2>&1 | tail -4 >> $LOG
cd /; git -C /repo worktree remove --force $WT
grep -E "^==|^exit=|Summary|^test result|panicked at|FAILED|^test .* (ok|FAILED)" $LOG | cut -c1-300 | head -60 > $SEED/confirm.txt
grep -E "^exit=|Summary|^==" $LOG
