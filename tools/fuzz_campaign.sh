#!/bin/bash
# tools/fuzz_campaign.sh <runs-per-target> [jobs]
# Fixed-work libFuzzer campaigns over the C17/C16/C15 targets. Fresh corpus
# directories seeded from /verif/corpus; crashes are copied to
# /verif/corpus/<target>-crashes (replayed by ./check C17). Exit 0 always
# unless the build fails (2): the verdict is given by the replay in vcheck.
set -u
RUNS="${1:-20000}"
JOBS="${2:-16}"
SEED="${VERIF_SEED:-1}"
[ "$SEED" = "0" ] && SEED=1
ROOT="$(dirname "$(dirname "$(realpath "$0")")")"
export CARGO_NET_OFFLINE=true VERIF_FUZZ_LIGHT=1 RAYON_NUM_THREADS=1
cd "$ROOT"
cargo +nightly fuzz build --fuzz-dir fuzz -s none > "$ROOT/harness/target/fuzz-build.log" 2>&1 || { echo "HARNESS-PROBLEM: fuzz build failed"; tail -20 "$ROOT/harness/target/fuzz-build.log"; exit 2; }
BIN="$ROOT/fuzz/target/x86_64-unknown-linux-gnu/release"
TOTAL=0
SUMMARY="{\"runs_per_job\": $RUNS, \"jobs\": $JOBS, \"seed\": $SEED, \"targets\": {"
first=1
for T in decoders raw_proof raw_compressed raw_verifier raw_pp raw_prover; do
  RUN="$ROOT/fuzz/corpus-run/$T"
  rm -rf "$RUN"; mkdir -p "$RUN" "$ROOT/fuzz/artifacts/$T"
  [ -d "$ROOT/corpus/$T" ] && cp "$ROOT/corpus/$T"/* "$RUN"/ 2>/dev/null
  case "$T" in raw_proof) ML=1008;; raw_compressed) ML=2048;; raw_verifier) ML=2048;; raw_pp) ML=4096;; raw_prover) ML=48000;; *) ML=64;; esac
  # the prover decoder costs milliseconds per input: a tenth of the runs
  TR=$RUNS; [ "$T" = raw_prover ] && TR=$((RUNS / 10 + 1))
  PER=$(( (JOBS + 2) / 3 ))   # three targets' worth of jobs at a time
  pids=()
  for j in $(seq 1 $PER); do
    "$BIN/$T" "$RUN" -runs="$TR" -seed=$((SEED + j)) -len_control=0 -max_len=$ML -timeout=60 -rss_limit_mb=4096 \
       -artifact_prefix="$ROOT/fuzz/artifacts/$T/" > "$ROOT/fuzz/corpus-run/$T.$j.log" 2>&1 &
    pids+=($!)
  done
  crashed=0
  for p in "${pids[@]}"; do wait "$p" || crashed=1; done
  execs=$(grep -ho "Done [0-9]* runs" "$ROOT/fuzz/corpus-run/$T".*.log 2>/dev/null | awk '{s+=$2} END {print s+0}')
  cov=$(grep -ho "cov: [0-9]*" "$ROOT/fuzz/corpus-run/$T".*.log 2>/dev/null | awk '{ if ($2>m) m=$2 } END {print m+0}')
  ncrash=$(ls "$ROOT/fuzz/artifacts/$T" 2>/dev/null | wc -l)
  if [ "$ncrash" -gt 0 ]; then
    mkdir -p "$ROOT/corpus/$T-crashes"; cp "$ROOT/fuzz/artifacts/$T"/* "$ROOT/corpus/$T-crashes"/ 2>/dev/null
  fi
  TOTAL=$((TOTAL + execs))
  [ $first -eq 0 ] && SUMMARY="$SUMMARY, "
  first=0
  SUMMARY="$SUMMARY\"$T\": {\"execs\": $execs, \"max_cov\": $cov, \"crash_artifacts\": $ncrash, \"corpus_files\": $(ls "$RUN" | wc -l)}"
  echo "fuzz $T: execs=$execs cov=$cov crash_artifacts=$ncrash"
done
SUMMARY="$SUMMARY}, \"total_execs\": $TOTAL}"
echo "$SUMMARY" > "$ROOT/harness/target/fuzz-summary.json"
exit 0
