#!/bin/bash
# tools/fuzz_campaign.sh <runs-per-target> [jobs]
# Fixed-work libFuzzer campaigns over the C17/C16/C15 targets. Fresh corpus
# directories seeded from /verif/corpus; crashes are copied to
# /verif/corpus/<target>-crashes (replayed by ./check C17). Exit 0 always
# unless the build fails (2): the verdict is given by the replay in vcheck.
set -u
RUNS="${1:-20000}"
JOBS="${2:-16}"
SEED="${VERIF_SEED:-1}"
[ "$SEED" = "0" ] && SEED=1
ROOT="$(dirname "$(dirname "$(realpath "$0")")")"
export CARGO_NET_OFFLINE=true VERIF_FUZZ_LIGHT=1 RAYON_NUM_THREADS=1
cd "$ROOT"
cargo +nightly fuzz build --fuzz-dir fuzz -s none > "$ROOT/harness/target/fuzz-build.log" 2>&1 || { echo "HARNESS-PROBLEM: fuzz build failed"; tail -20 "$ROOT/harness/target/fuzz-build.log"; exit 2; }
BIN="$ROOT/fuzz/target/x86_64-unknown-linux-gnu/release"
TOTAL=0
SUMMARY="{\"runs_per_job\": $RUNS, \"jobs\": $JOBS, \"seed\": $SEED, \"targets\": {"
# all targets run concurrently; jobs and runs per target are weighted by the cost of one input
# (a prover decode costs milliseconds, a proof decode microseconds): target:jobs:runs-divisor:max_len
PLAN="decoders:4:1:64 raw_proof:2:1:1008 raw_compressed:3:2:2048 raw_verifier:3:1:2048 raw_pp:2:4:4096 raw_prover:2:10:48000"
pids=()
for ENTRY in $PLAN; do
  IFS=: read -r T PER DIV ML <<< "$ENTRY"
  RUN="$ROOT/fuzz/corpus-run/$T"
  rm -rf "$RUN"; mkdir -p "$RUN" "$ROOT/fuzz/artifacts/$T"
  [ -d "$ROOT/corpus/$T" ] && cp "$ROOT/corpus/$T"/* "$RUN"/ 2>/dev/null
  TR=$(( RUNS / DIV + 1 ))
  for j in $(seq 1 $PER); do
    "$BIN/$T" "$RUN" -runs="$TR" -seed=$((SEED + j)) -len_control=0 -max_len=$ML -timeout=60 -rss_limit_mb=4096 \
       -artifact_prefix="$ROOT/fuzz/artifacts/$T/" > "$ROOT/fuzz/corpus-run/$T.$j.log" 2>&1 &
    pids+=($!)
  done
done
for p in "${pids[@]}"; do wait "$p"; done
first=1
for ENTRY in $PLAN; do
  IFS=: read -r T PER DIV ML <<< "$ENTRY"
  RUN="$ROOT/fuzz/corpus-run/$T"
  execs=$(grep -ho "Done [0-9]* runs" "$ROOT/fuzz/corpus-run/$T".*.log 2>/dev/null | awk '{s+=$2} END {print s+0}')
  cov=$(grep -ho "cov: [0-9]*" "$ROOT/fuzz/corpus-run/$T".*.log 2>/dev/null | awk '{ if ($2>m) m=$2 } END {print m+0}')
  ncrash=$(ls "$ROOT/fuzz/artifacts/$T" 2>/dev/null | wc -l)
  if [ "$ncrash" -gt 0 ]; then
    mkdir -p "$ROOT/corpus/$T-crashes"; cp "$ROOT/fuzz/artifacts/$T"/* "$ROOT/corpus/$T-crashes"/ 2>/dev/null
  fi
  TOTAL=$((TOTAL + execs))
  [ $first -eq 0 ] && SUMMARY="$SUMMARY, "
  first=0
  SUMMARY="$SUMMARY\"$T\": {\"execs\": $execs, \"max_cov\": $cov, \"crash_artifacts\": $ncrash, \"corpus_files\": $(ls "$RUN" | wc -l)}"
  echo "fuzz $T: execs=$execs cov=$cov crash_artifacts=$ncrash"
done
SUMMARY="$SUMMARY}, \"total_execs\": $TOTAL}"
echo "$SUMMARY" > "$ROOT/harness/target/fuzz-summary.json"
exit 0
