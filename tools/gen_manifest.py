#!/usr/bin/env python3
"""Regenerates /verif/MANIFEST.json from the table below (kept in one place so
the manifest stays valid and current)."""
import json, subprocess, os
ROOT = os.path.dirname(os.path.dirname(os.path.abspath(__file__)))

CLAIMED = {
  "C01": ("proptest-generated circuit programs, satisfying by construction through an independent value model; oracle = prove Ok + returned PI = model PI + verify Ok on every key route + independent reference verifier accepts; exhaustive (k,delta) size sweep",
          "Exploration: hundreds (quick) to thousands (thorough) of generated circuits per run covering every public component, raw arithmetic rows, constraint counts within +-8 of every power of two up to 2^9 (quick) / 2^13 (thorough), PI on first/last/adjacent rows, arbitrary labels, four capacity kinds and all 9 prover-route x verifier-route pairs plus byte round trips. A completeness bug that needs a particular size/padding/PI placement/route combination is reached by construction; absence is not proved.",
          "Trusted: harness value model and reference verifier (cross-checked against the implementation on every case), ChaCha-seeded proving randomness (degenerate blinders not generated).",
          "DESIGN.md C01"),
  # id: (technique, level text, level note, design_ref)
  "C19": ("proptest (seeded, sharded) against O(n^2) textbook definitions; differential across rayon pool sizes",
          "Exploration: thousands of generated vectors/polynomials/points per run are compared with direct evaluation, Lagrange interpolation and schoolbook arithmetic written in the harness; every length class (shorter/equal/longer than the domain), both sides of the 2^12 parallel switch and pools 1..=17 are populated (see classes in evidence). It finds kernel deviations that need a particular length/size/pool; it does not prove absence.",
          "Trusted: dusk-bls12_381 field arithmetic, the harness's naive definitions, the feature-guarded forwarding wrappers in /repo/src/verif.rs.",
          "DESIGN.md C19"),
}

PENDING_REASON = "check not built yet in this session (design in DESIGN.md; being implemented in order)"

def main():
    props = [json.loads(l) for l in open(os.path.join(ROOT, "properties.jsonl"))]
    hooks_commits = subprocess.run(["git","-C","/repo","log","--format=%h %s","--grep=^verif hook"],capture_output=True,text=True).stdout.strip().splitlines()
    checks = []
    na = []
    for p in props:
        pid = p["id"]
        if pid in CLAIMED:
            tech, text, note, ref = CLAIMED[pid]
            checks.append({
                "property_id": pid,
                "quick_cmd": f"./check {pid} --tier quick",
                "thorough_cmd": f"./check {pid} --tier thorough",
                "evidence_file": f"/verif/evidence/{pid}.json",
                "replay_cmd_template": f"./check {pid} --replay {{path}}",
                "engine": "vcheck",
                "level_claimed": {"category": "exploration", "text": text, "design_ref": ref},
                "level_note": note,
                "technique": tech,
            })
        else:
            na.append({"property_id": pid, "reason": PENDING_REASON})
    m = {
        "version": 1,
        "setup_cmd": "./setup.sh",
        "hooks": {
            "guard": "cargo feature `verif` of dusk-plonk (off by default)",
            "enable": "harness/Cargo.toml depends on dusk-plonk = { path = \"/repo\", features = [\"verif\", \"legacy-proving\"] }; every ./check run rebuilds it from /repo's working tree",
            "baseline_off_cmd": "cd /repo && cargo nextest run --workspace --no-fail-fast --tool-config-file pb:/w/lib/nextest.toml --profile pb --test-threads 8 --offline || (cd /repo && cargo test --workspace --no-fail-fast --offline)",
            "source_commits": [c.split()[0] for c in hooks_commits],
            "add_only": True,
        },
        "engines": [
            {"name": "vcheck", "path": "/verif/harness", "serves_properties": sorted(CLAIMED.keys()),
             "kind_free_text": "Rust binary: seeded proptest strategies run in 16 shards, explicit oracles, shrinking to JSON replay files, known-findings matching, evidence writer"},
        ],
        "checks": checks,
        "not_applicable": na,
        "notes": "exit 0 = held on everything explored; exit 1 + VIOLATION line = violation; exit 2 = harness problem. VERIF_SEED seeds every generator. known_findings.json lists open findings and fixed: entries.",
    }
    json.dump(m, open(os.path.join(ROOT, "MANIFEST.json"), "w"), indent=1)
    print("claimed:", len(checks), "not_applicable:", len(na))

if __name__ == "__main__":
    main()
