#!/bin/bash
# tools/run_all.sh [tier] [seed] — runs every registered check, prints one line per check
TIER="${1:-quick}"; SEED="${2:-20260923}"
cd "$(dirname "$(dirname "$(realpath "$0")")")"
for i in $(seq -w 1 20); do
  ID=C$i
  START=$(date +%s)
  OUT=$(VERIF_SEED=$SEED ./check $ID --tier $TIER 2>&1); RC=$?
  END=$(date +%s)
  echo "$ID rc=$RC $((END-START))s $(echo "$OUT" | grep -E "^C[0-9]+ (quick|thorough):" | tail -1)"
  echo "$OUT" | grep -E "VIOLATION|signature:|message:|HARNESS" | head -6
done
