#!/bin/bash
# tools/mutant.sh <patch> <ID> [check args...]  — apply a patch to /repo, run the check, always revert.
set -u
PATCH="$(realpath "$1")"; shift
if ! git -C /repo diff --quiet; then echo "refusing: /repo has uncommitted changes"; exit 2; fi
git -C /repo apply "$PATCH" || { echo "patch does not apply"; exit 2; }
trap 'git -C /repo checkout -- . ; git -C /repo clean -fdq src tests 2>/dev/null; git -C /verif checkout -- evidence' EXIT  # evidence written against a patched tree is never kept
cd /verif && ./check "$@"
echo "mutant exit=$?"
