#!/usr/bin/env python3
"""Creates the hand-made sensitivity mutants as patch files under /verif/mutants.
Each entry: name, file (relative to /repo), old text, new text, checks that should catch it."""
import subprocess, os, json, sys
REPO="/repo"
M=[]
def m(name, f, old, new, checks): M.append((name,f,old,new,checks))

# C01 / C04
m("c01-verifier-domain-constraints-plus-one","src/compiler/verifier.rs","let domain = EvaluationDomain::new(verifier_key.n)?;","let domain = EvaluationDomain::new(verifier_key.n + 1)?;",["C01","C03"])
m("c01-quotient-fourth-share-sliced","src/compiler/prover.rs","let mut t_fourth_vec = t_poly[3 * domain_size..].to_vec();","let mut t_fourth_vec = t_poly[3 * domain_size..4 * domain_size + 6].to_vec();",["C01","C06"])
m("c04-pi-filter-before-zip","src/compiler/verifier.rs","""        public_inputs
            .iter()
            .for_each(|pi| transcript.append_scalar(b"pi", pi));

        match version {""","""        public_inputs
            .iter()
            .filter(|pi| **pi != BlsScalar::zero())
            .for_each(|pi| transcript.append_scalar(b"pi", pi));

        match version {""",["C03","C04","C01"])
m("c04-length-check-only-when-longer","src/compiler/verifier.rs","if public_inputs.len() != self.public_input_indexes.len() {","if public_inputs.len() > self.public_input_indexes.len() {",["C04","C03"])
# C02/C03 consistent weakening: drop logic product-wire term from prover and verifier
m("c03-logic-product-term-dropped","src/proof_system/widget/logic/proverkey.rs","let c_3 = (w - a * b) * kappa_cu;","let c_3 = (w - a * b) * kappa_cu * BlsScalar::zero();",["C03","C05","C10","C06"])
# C05
m("c05-detection-threshold-8n","src/proof_system/quotient_poly.rs","if quotient_poly.len() > 7 * (quotient_domain.size() / 8) {","if quotient_poly.len() > 8 * (quotient_domain.size() / 8) {",["C05"])
m("c05-range-last-quad-unchecked-prover","src/proof_system/widget/range/proverkey.rs","        let b_4 = delta(d_i_w - four * a_i) * kappa_cu;\n        (b_1 + b_2 + b_3 + b_4) * q_range_i * range_separation_challenge","        let b_4 = delta(d_i_w - four * a_i) * kappa_cu;\n        (b_1 + b_2 + b_3 + b_4 - b_4) * q_range_i * range_separation_challenge",["C05","C03","C06"])
# C06
m("c06-z-hiding-degree-1","src/compiler/prover.rs","let z_poly = Self::blind_poly(rng, &permutation, 2, &domain);","let z_poly = Self::blind_poly(rng, &permutation, 1, &domain);",["C06"])
m("c06-tmid-not-rerandomised","src/compiler/prover.rs","        t_mid_vec[0] -= b_12;\n        t_mid_vec.push(b_13);","        t_mid_vec[0] -= b_12;\n        t_mid_vec[0] += b_12;\n        t_mid_vec.push(b_13);",["C06","C01","C03"])
# C07
m("c07-select-identity-boolean-only-when-needed","src/composer/point.rs","        self.component_boolean(bit);\n        let selected = self.select_identity_gates(bit, a);","        if self[bit] != BlsScalar::zero() {\n            self.component_boolean(bit);\n        }\n        let selected = self.select_identity_gates(bit, a);",["C07","C01"])
m("c07-decomposition-early-zero","src/composer/bits.rs","        let mut decomposition = [Self::ZERO; N];\n","        let mut decomposition = [Self::ZERO; N];\n        if self[scalar] == BlsScalar::zero() && N == 7 {\n            self.assert_equal(scalar, Self::ZERO);\n            return decomposition;\n        }\n",["C07"])
# C08
m("c08-select-one-constant-zero","src/composer/select.rs","""            .output(-BlsScalar::one())
            .constant(1)
            .a(bit)
            .b(value)
            .c(f_x);""","""            .output(-BlsScalar::one())
            .constant(1)
            .a(bit)
            .b(value)
            .c(f_x)
            .d(value);""",[])
m("c08-evaluated-output-fast-path-sign","src/composer.rs","            if y == &ONE {\n                Some(-x)","            if y == &ONE {\n                Some(x)",["C08","C01"])
# C09
m("c09-odd-width-top-bit-unconstrained","src/composer/range.rs","        let top_bit = self.append_witness(top_bit_value);\n        self.component_boolean(top_bit);","        let top_bit = self.append_witness(top_bit_value);\n        self.component_boolean(lower);\n        let _ = top_bit;",["C09"])
# C11
m("c11-truncate-canonical-guard-uses-wrong-width","src/composer/truncate.rs","        self.range_check(guard, num_bits);\n    }","        self.range_check(guard, 255);\n    }",["C11","C10"])
# C12
m("c12-neg-point-negates-y","src/composer/point.rs","        let constraint = Constraint::new().left(-BlsScalar::one()).a(*p.x());\n        let neg_p_x = self.gate_mul(constraint);\n\n        TorsionFreeWitnessPoint::new_unchecked(WitnessPoint::new(\n            neg_p_x,\n            *p.y(),\n        ))","        let constraint = Constraint::new().left(-BlsScalar::one()).a(*p.y());\n        let neg_p_y = self.gate_mul(constraint);\n\n        TorsionFreeWitnessPoint::new_unchecked(WitnessPoint::new(\n            *p.x(),\n            neg_p_y,\n        ))",["C12","C01"])
# C13
m("c13-two-doublings","src/composer/point.rs","        let q8 = self.add_point_gates(q4, q4);\n        self.assert_equal_point(point, q8);","        let q8 = self.add_point_gates(q4, q4);\n        let _ = q8;\n        self.assert_equal_point(point, q4);",["C13"])
m("c13-constant-point-skips-on-curve","src/composer/point.rs","let is_member = point.is_on_curve() & point.is_torsion_free();","let is_member = point.is_torsion_free();",["C13"])
# C14
m("c14-leading-zero-rounds-2","src/composer/fixed_base.rs","            if i == FIXED_BASE_LEADING_ZERO_ROUNDS {","            if i == FIXED_BASE_LEADING_ZERO_ROUNDS - 1 {",["C14"])
m("c14-canonicity-second-range-dropped","src/composer/fixed_base.rs","        self.range_check(distance_from_max, JUBJUB_SCALAR_BITS);","        self.range_check(distance_from_max, 256);",["C14"])
# C15
m("c15-max-constraints-without-blinding-degree","src/compiler.rs","            .saturating_sub(PublicParameters::ADDED_BLINDING_DEGREE);\n        let max_domain_size","            .saturating_sub(0);\n        let max_domain_size",["C15"])
m("c15-pi-ordering-unchecked","src/composer/compress.rs","            || self.public_inputs.windows(2).any(|w| w[0] >= w[1])","            || self.public_inputs.windows(2).any(|w| w[0] > w[1] + usize::MAX / 2)",["C15","C17"])
# C16
m("c16-verifier-drops-constraints","src/compiler/verifier.rs","        bytes.extend(constraints.to_be_bytes());\n\n        bytes.extend(self.label.as_slice());\n        bytes.extend(verifier_key);\n        bytes.extend(opening_key);","        bytes.extend((constraints.next_power_of_two()).to_be_bytes());\n\n        bytes.extend(self.label.as_slice());\n        bytes.extend(verifier_key);\n        bytes.extend(opening_key);",["C16","C01","C03"])
# C17
m("c17-prover-key-degree-bound-unchecked","src/proof_system/widget.rs","                    if serialized_poly_len > n {\n                        return Err(dusk_bytes::Error::InvalidData.into());\n                    }","                    if serialized_poly_len > n.saturating_mul(64) {\n                        return Err(dusk_bytes::Error::InvalidData.into());\n                    }",["C17"])
m("c17-opening-key-identity-allowed","src/commitment_scheme/kzg10/key.rs","            && !bool::from(x_h.is_identity());","            && (!bool::from(x_h.is_identity()) || bool::from(x_h.is_identity()));",["C17"])
# C18
m("c18-parallel-chunk-seed-from-thread-count","src/fft/domain.rs","        let range_len = m.div_ceil(rayon::current_num_threads());\n        let range_count = m.div_ceil(range_len);\n        let seed_step = w_m.pow_vartime(&[range_len as u64, 0, 0, 0]);","        let range_len = m.div_ceil(rayon::current_num_threads());\n        let range_count = m.div_ceil(range_len);\n        let seed_step = w_m.pow_vartime(&[(m / rayon::current_num_threads()) as u64, 0, 0, 0]);",["C18","C19"])
# C19
m("c19-ruffini-keeps-remainder-for-constant","src/fft/polynomial.rs","        // Pop off the last element, it is the remainder term\n        // For PLONK, we only care about perfect factors\n        quotient.pop();","        // Pop off the last element, it is the remainder term\n        // For PLONK, we only care about perfect factors\n        if quotient.len() > 1 {\n            quotient.pop();\n        }",["C19","C20"])
m("c19-batch-inversion-leading-zero","src/util.rs","    for f in v.iter().filter(|f| f != &&BlsScalar::zero()) {\n        tmp.mul_assign(f);\n        prod.push(tmp);\n    }","    for f in v.iter().skip_while(|f| f == &&BlsScalar::zero()).filter(|f| f != &&BlsScalar::zero()) {\n        tmp.mul_assign(f);\n        prod.push(tmp);\n    }",[])
# C20
m("c20-commit-degree-check-off-by-one","src/commitment_scheme/kzg10/key.rs","        match poly_degree > self.max_degree() {","        match poly_degree > self.max_degree() + 1 {",["C20"])
m("c20-batch-challenge-skips-evaluation","src/commitment_scheme/kzg10/key.rs","        transcript.append_scalar(b\"batch-evaluation\", &proof.evaluated_point);\n","",[])

os.makedirs("/verif/mutants",exist_ok=True)
index=[]
for name,f,old,new,checks in M:
    p=os.path.join(REPO,f)
    s=open(p).read()
    if s.count(old)!=1:
        print("SKIP (anchor count %d): %s"%(s.count(old),name)); continue
    open(p,'w').write(s.replace(old,new))
    d=subprocess.run(["git","-C",REPO,"diff"],capture_output=True,text=True).stdout
    subprocess.run(["git","-C",REPO,"checkout","--","."])
    open(f"/verif/mutants/{name}.diff","w").write(d)
    index.append({"name":name,"file":f,"expected_checks":checks})
json.dump(index,open("/verif/mutants/index.json","w"),indent=1)
print(len(index),"mutants written")
