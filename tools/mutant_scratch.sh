#!/bin/bash
# tools/mutant_scratch.sh setup            — create /tmp/mut/{repo,verif} (scratch copies; /repo and /verif untouched)
# tools/mutant_scratch.sh run <patch> <ID> [args]  — apply patch to the scratch repo, run the scratch check, revert
# tools/mutant_scratch.sh clean
set -u
M=/tmp/mut
case "${1:-}" in
  setup)
    rm -rf $M/verif; mkdir -p $M
    [ -d $M/repo ] || git -C /repo worktree add -q --detach $M/repo HEAD
    git -C $M/repo checkout -q --detach "$(git -C /repo rev-parse HEAD)"
    rsync -a --exclude target --exclude 'corpus-run' --exclude artifacts /verif/ $M/verif/
    sed -i "s|path = \"/repo\"|path = \"$M/repo\"|" $M/verif/harness/Cargo.toml $M/verif/harness-nostd/Cargo.toml $M/verif/harness-nolegacy/Cargo.toml $M/verif/fuzz/Cargo.toml
    echo "scratch ready at $M";;
  sync)
    rsync -a --exclude target --exclude 'corpus-run' --exclude artifacts --exclude Cargo.toml /verif/ $M/verif/
    git -C $M/repo checkout -q --detach "$(git -C /repo rev-parse HEAD)";;
  run)
    PATCH="$(realpath "$2")"; shift 2
    git -C $M/repo checkout -q -- . ; git -C $M/repo apply "$PATCH" || { echo "patch does not apply"; exit 2; }
    (cd $M/verif && ./check "$@"); RC=$?
    git -C $M/repo checkout -q -- .
    echo "mutant exit=$RC";;
  clean)
    git -C /repo worktree remove --force $M/repo; rm -rf $M;;
  *) echo "usage: setup | sync | run <patch> <ID> [args] | clean"; exit 2;;
esac
