#!/usr/bin/env python3
"""tools/seed_prompt.py <ID> <what-it-needs hint> [<mechanism to place the change in> [<round suffix>]]
Prints the task text handed to an independent sub-agent (property text + scratch worktree only;
nothing from /verif). See DESIGN.md 10.5."""
import sys, json
pid, hint = sys.argv[1], sys.argv[2]
mech = sys.argv[3] if len(sys.argv) > 3 else None
suffix = sys.argv[4] if len(sys.argv) > 4 else '2'
import os
ROOT = os.path.dirname(os.path.dirname(os.path.abspath(__file__)))
prop = None
for l in open(os.path.join(ROOT, "properties.jsonl")):
    p = json.loads(l)
    if p["id"] == pid:
        prop = json.dumps(p, indent=1)
assert prop, pid
wt = f"/tmp/wt{suffix}-{pid}"
text = (f"""You are working on the Rust crate dusk-network/plonk (a pure-Rust PLONK zero-knowledge proof system over BLS12-381 with KZG10 commitments). A scratch git worktree of it is at {wt}. Work ONLY inside {wt}. Do not read or touch /repo or /verif (they are out of bounds for you). There is no network; build offline, always with your own target dir:
  cd {wt} && CARGO_TARGET_DIR={wt}/target CARGO_NET_OFFLINE=true cargo <cmd> --offline ...

Below is a semantic property of this crate that is supposed to hold (JSON: statement, quantifier, anchors into the source).

{prop}

YOUR TASK: write a realistic change to the crate's source (under src/, not tests/) that BREAKS this property, such that:
 (a) the crate still compiles (default features, and also `cargo check --offline --no-default-features --features alloc`);
 (b) the WHOLE existing test suite, unedited, still passes with the change: `CARGO_TARGET_DIR={wt}/target cargo nextest run --workspace --no-fail-fast --offline --test-threads 8` (fallback: `cargo test --workspace --no-fail-fast --offline`). All 176 tests must pass (takes ~4-6 minutes in the dev profile). If your change breaks an existing test, it does not count: pick another change.
 (c) the change needs something SPECIFIC to manifest - {hint} - rather than being exposed at once by ordinary use. It should look like something a maintainer could plausibly commit by accident (a refactor, optimisation, cleanup, "simplification", off-by-one at a boundary, a forgotten case, two sites that each look fine alone) - not blatant sabotage, and not a change that makes the property fail for nearly all inputs.
 (c') PLACE THE CHANGE HERE: the property's anchors name several mechanisms; for this task the change must be made in or directly around this one: «MECH». Do not pick a different mechanism even if another one looks easier.
 (d) do not touch or depend on anything guarded by `#[cfg(feature = "verif")]`, nor src/verif.rs / src/composer/verif.rs (those are test instrumentation). Your demonstration may USE the `verif` feature hooks if it needs crate-private access, but prefer the public API (`dusk_plonk::prelude::*`) or an in-crate #[cfg(test)] module.

Then write a DEMONSTRATION: a test (preferably an integration test file placed at tests/seed_demo.rs using only the public API; otherwise an in-crate #[cfg(test)] module, with exact placement instructions) that FAILS with your change applied and PASSES without it, and that shows the property itself being violated (not just that some internal function returns a different value).

DELIVERABLES, in {wt}/seed/ :
  patch.diff  - `git diff -- src` of your change; must apply with `git apply` to the clean HEAD of the worktree
  demo.rs     - the demonstration
  meta.json   - {{"property": "{pid}", "summary": "<what the change is and why it looks innocent>", "needs": "<what exactly is needed for it to manifest>", "demo": {{"file": "...", "kind": "integration test | in-crate module", "placement": "<where to copy it and what line to add where>", "run": "<command>"}}, "ran": ["<each command you ran to confirm (a)-(c) and the demo with/without the change, and its outcome>"]}}
NEVER use `git stash` (the stash is shared by every worktree of this repository and other people are working in sibling worktrees): to switch between the changed and unchanged source, save your diff to seed/patch.diff and use `git checkout -- src` / `git apply seed/patch.diff`. Leave the worktree with the patch NOT applied (`git checkout -- src`), and with the demo file removed from tests/ or src/ (only seed/ and target/ may remain untracked). You MUST actually run: the demo without the change (passes), the demo with the change (fails), and the full existing suite with the change (176 pass). Report failures honestly; if after serious effort you cannot find a change satisfying all of (a)-(d), say so.

Your final message: a short summary of the change, what it needs to manifest, and the confirmed results of the three runs.""")
if mech:
    text = text.replace("«MECH»", mech)
else:
    import re
    text = re.sub(r" \(c'\) PLACE THE CHANGE HERE.*?easier\.\n", "", text, flags=re.S)
print(text)
